---------------------------- MODULE TraceCtrGroestl ----------------------------
(* Trace validation for C17 (Groestl): digests of messages whose length counter starts at a fast-forwarded value (event "ff":
   hook H2 set the counter to `base` on a new instance, then real data crossed the word boundary through the real increment
   code), or of really streamed messages with a checkpoint before the boundary (event "stream": chaining value, counter and
   buffered bytes read through H2; the counter must equal the amount actually fed).  The digest must equal the specification's
   value for (chaining value, amount absorbed, remaining bytes). *)
EXTENDS Groestl, Json, IOUtils, TLC
Rec == ndJsonDeserialize(IOEnv.TRACE)
N == Len(Rec)
VARIABLES l, phase, bad
vars == <<l, phase, bad>>
WResizeL(a, n) == [i \in 1..n |-> a[i]]
\* event "big": one update call of >= 2^32 bytes; no chaining-value hook for Groestl, so the digest is compared with the one of a
\* chunk-fed instance (out_ref) and the block counter must equal the bytes compressed / block size
BlockShift(alg) == IF NC(alg) = 8 THEN 6 ELSE 7
CounterOk(e) == e.ev = "ff" \/ (e.ev = "big" /\ WShl(WResize(e.base, 8), BlockShift(e.alg)) = e.fed)
RefOk(e) == e.out = e.out_ref /\ e.base = e.base_ref /\ e.pos = e.pos_ref
Want(e) == GroestlFrom(IV(NC(e.alg), 8 * OutBytes(e.alg)), e.base, e.rest, NC(e.alg), OutBytes(e.alg))
Check(e) == e.res = "ok" /\ CounterOk(e) /\ (IF e.ev = "big" THEN RefOk(e) ELSE e.out = Want(e))
Init == l \in 1..N /\ phase = 0 /\ bad = FALSE
Next == /\ phase = 0 /\ phase' = 1 /\ l' = l
        /\ bad' = IF Check(Rec[l]) THEN FALSE ELSE PrintT(<<"REJECT", l>>)
Spec == Init /\ [][Next]_vars
=============================================================================
