---------------------------- MODULE MCStreamReal ----------------------------
(* Stream.tla at the real constants (BLOCK = 64, 2^32 / 2^64 counters); numbers are 5 x 16-bit limbs.
   Seek targets and request lengths are restricted to landmark alphabets; TLC explores every history
   up to DEPTH calls and dumps the labelled state graph, whose edges are then replayed on the real code. *)
EXTENDS Stream, Limbs
CONSTANTS DEPTH, TIER, SEEDV
VARIABLE depth
L0 == <<0, 0, 0, 0, 0>>
LI(x) == WOfInt(x, 5)
LDivB(a) == WShr(a, 6)
LMulB(a) == WShl(a, 6)
LModB(a) == a[1] % 64
LLo(a) == <<a[1], a[2], 0, 0, 0>>
LHi(a) == <<a[3], a[4], 0, 0, 0>>
LJoin(lo, hi) == <<lo[1], lo[2], hi[1], hi[2], 0>>
LM64(a) == <<a[1], a[2], a[3], a[4], 0>>
LW32 == <<0, 0, 1, 0, 0>>
LW64 == <<0, 0, 0, 0, 1>>

L38 == <<0, 0, 64, 0, 0>>                       \* 2^38 bytes: end of the ietf keystream, and block 2^32 for c64
L64m == <<65535, 65535, 65535, 65535, 0>>       \* 2^64 - 1
DeltasQ == {0, 1, 63, 64, 65}
DeltasT == {0, 1, 2, 63, 64, 65, 128, 255, 257}
DeltasE == IF TIER = "c11" THEN {0, 1, 63, 64, 65, 257} ELSE {0, 1, 63, 64, 65, 128, 192, 255, 256, 257}     \* C11: concentrated at the limits
IsC11 == TIER \in {"c11", "c11t"}
Deltas == IF TIER = "quick" THEN DeltasQ ELSE IF IsC11 THEN DeltasE ELSE DeltasT
SeekSet == (IF IsC11 THEN {LI(0), LI(64)} ELSE {LI(d) : d \in Deltas}) \cup {WSub(L38, LI(d)) : d \in Deltas} \cup {WAdd(L38, LI(d)) : d \in {1, 64, 65}}
           \cup {WSub(L64m, LI(d)) : d \in (IF TIER = "quick" THEN {0, 63, 64} ELSE {0, 1, 62, 63, 64, 255, 256})}
\* request lengths: the block / buffer boundaries exactly, and one representative of each open interval between them whose
\* value depends on the run's seed (A1 in 194..254: ends inside the fourth block of a chunk; A2 in 258..377: a chunk and a bit)
A1 == 194 + ((SEEDV * 37) % 61)
A2 == 258 + ((SEEDV * 53) % 120)
A3 == 66 + ((SEEDV * 29) % 126)       \* 66..191
R1 == 258 + ((SEEDV * 41) % 62)       \* rewind by 258..319: into the fourth-from-last block of what was just produced
ApplySet == IF TIER = "quick" THEN {0, 1, 63, 64, 65, 256, 257, 512, A1, A2}
            ELSE IF TIER = "c11" THEN {0, 1, 63, 64, 65, A1, 257, A2}
            ELSE IF TIER = "c11t" THEN {0, 1, 2, 63, 64, 65, 66, 128, 129, 193, 255, 256, 257, 321, A1, A3}
            ELSE {0, 1, 2, 63, 64, 65, 127, 129, 192, 255, 256, 257, 321, 513, 1025, A1, A2, A3}
Nonces == IF TIER \in {"quick", "c11"} THEN {<<65535, 65535, 0, 0, 0>>} ELSE {<<65535, 65535, 0, 0, 0>>, <<4660, 22136, 0, 0, 0>>}
Init == /\ depth = 0
        /\ \E v \in {"ietf", "c64"} : \E nz \in Nonces : (v = "c64" => nz = <<65535, 65535, 0, 0, 0>>) /\ InitFor(v, IF v = "c64" THEN L0 ELSE nz)
Step == depth < DEPTH /\ depth' = depth + 1
DoSeek(p) == Step /\ Seek(p)
\* rewind relative to the current position (re-reading what was just produced)
RelSet == IF TIER = "quick" THEN {0, 1, 64, 65, R1} ELSE IF TIER = "c11" THEN {0, 1, 64, 65} ELSE {0, 1, 2, 63, 64, 65, 128, 256, 257, R1, 512}    \* 0: seek to the current position
DoSeekRel(d) == Step /\ WLe(LI(d), pos) /\ WLe(WSub(pos, LI(d)), L64m) /\ Seek(WSub(pos, LI(d)))
DoSeekBad == Step /\ SeekUnconvertible
DoApply(n) == Step /\ Apply(n)
DoPos == Step /\ CurrentPos
Next == \/ \E p \in SeekSet : DoSeek(p)
        \/ \E d \in RelSet : DoSeekRel(d)
        \/ DoSeekBad
        \/ \E n \in ApplySet : DoApply(n)
        \/ DoPos
Spec == Init /\ [][Next]_<<vars, depth>>
=============================================================================
