------------------------------ MODULE TraceSkein ------------------------------
(* Trace validation for C05: `digest` events of Skein256/512/1024<N> must equal Skein.tla's SkeinHash. *)
EXTENDS Skein, Json, IOUtils, TLC
Rec == ndJsonDeserialize(IOEnv.TRACE)
N == Len(Rec)
VARIABLES l, phase, bad
vars == <<l, phase, bad>>
NB(alg) == CASE alg = "Skein256" -> 32 [] alg = "Skein512" -> 64 [] alg = "Skein1024" -> 128
\* "digestw": a window (output blocks blk .. blk+nblk-1) of a digest too long to recompute whole; total is the length returned
CheckWin(e) == e.res = "ok" /\ e.total = e.n /\ e.out = SkeinHashWin(e.msg, NB(e.alg), e.n, e.blk, e.nblk)
Check(e) == IF e.ev = "digestw" THEN CheckWin(e) ELSE e.res = "ok" /\ Len(e.out) = e.n /\ e.out = SkeinHash(e.msg, NB(e.alg), e.n)
Init == l \in 1..N /\ phase = 0 /\ bad = FALSE
Next == /\ phase = 0 /\ phase' = 1 /\ l' = l
        /\ bad' = IF Check(Rec[l]) THEN FALSE ELSE PrintT(<<"REJECT", l>>)
Spec == Init /\ [][Next]_vars
=============================================================================
