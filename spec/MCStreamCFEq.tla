----------------------------- MODULE MCStreamCFEq -----------------------------
(* Binds the closed-form model StreamCF (whose inductive invariant Apalache discharges at the real constants) to the
   implementation-shaped model Stream.tla (which is bound to the code by edge replay with internals compared): at the scaled
   constants, in EVERY reachable state and for every request length / seek target, the closed forms compute exactly what the
   section-by-section model computes.  StreamCFSmall.tla is generated from apalache/StreamCF.tla by replacing the three constant
   definitions (B, BUFSZ, W32) - the formulas are the same text. *)
EXTENDS MCStreamSmall
CF == INSTANCE StreamCFSmall WITH lastok <- TRUE, lastwant <- TRUE
Same(r, c) == r[1] = c.ok /\ r[2].ctr = c.ctr /\ r[2].have = c.have /\ r[2].len = c.len /\ r[2].fresh = c.fresh
EqApply == \A n \in 0..MAXN : Same(ApplyImpl(n), CF!ApplyFn(variant, ctr, have, len, fresh, n))
EqPos == PosImpl = CF!PosImpl
\* Seek is compared through its effect: the closed form predicts the successor bookkeeping of every Seek(p)
SeekCF(p) == CF!SeekFn(variant, ctr, have, len, fresh, p)
EqSeekA == (last'.op = "seek" /\ last'.wantok) => \E p \in 0..(W * W - 1) :
              LET c == SeekCF(p) IN c.ok /\ ctr' = c.ctr /\ have' = c.have /\ len' = c.len /\ fresh' = c.fresh /\ pos' = p
EqSeek == [][EqSeekA]_vars
=============================================================================
