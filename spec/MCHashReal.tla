------------------------------ MODULE MCHashReal ------------------------------
(* Real-size companion of HashInst.tla: two hasher instances at the real block size, message content abstracted away
   (the replay harness supplies pseudo-random bytes); per instance only the message length is kept, and the state graph is
   folded by VIEW onto (buffer fill, number of processed blocks capped at 2, alive).  TLC dumps the labelled graph; every edge
   (= buffer-fill class x operation x piece-length class) is replayed on every hash type with that block size / flushing mode. *)
EXTENDS Integers, Sequences, TLC
CONSTANTS B, LAZY, DEPTH, TIER
VARIABLES len, depth       \* len[i] = message length of instance i, or -1 when not alive
vars == <<len, depth>>
Inst == {1, 2}
Fill(n) == IF n < 0 THEN -1 ELSE IF LAZY THEN (IF n = 0 THEN 0 ELSE ((n - 1) % B) + 1) ELSE n % B
Blocks(n) == IF n < 0 THEN -1 ELSE LET b == (n - Fill(n)) \div B IN IF b > 2 THEN 2 ELSE b
View == <<[i \in Inst |-> <<Fill(len[i]), Blocks(len[i])>>]>>
PiecesQ == {0, 1, B - 1, B, B + 1, 2 * B, 2 * B + 1, 3 * B + 5}
PiecesT == {0, 1, 2, B \div 2, B - 9, B - 8, B - 1, B, B + 1, 2 * B - 1, 2 * B, 2 * B + 1, 3 * B, 3 * B + 5, 5 * B + 7}
Pieces == IF TIER = "quick" THEN PiecesQ ELSE PiecesT
Step == depth < DEPTH /\ depth' = depth + 1
DoUpd(i, n) == Step /\ len[i] >= 0 /\ len' = [len EXCEPT ![i] = len[i] + n]
DoClone(i, j) == Step /\ len[i] >= 0 /\ j # i /\ len' = [len EXCEPT ![j] = len[i]]      \* clone() into an empty slot or clone_from() over a live one
DoReset(i) == Step /\ len[i] >= 0 /\ len' = [len EXCEPT ![i] = 0]
DoFinReset(i) == Step /\ len[i] >= 0 /\ len' = [len EXCEPT ![i] = 0]
DoFin(i) == Step /\ len[i] >= 0 /\ (\E j \in Inst : j # i /\ len[j] >= 0) /\ len' = [len EXCEPT ![i] = -1]
Init == len = [i \in Inst |-> IF i = 1 THEN 0 ELSE -1] /\ depth = 0
Next == \E i \in Inst : \/ \E n \in Pieces : DoUpd(i, n)
                        \/ \E j \in Inst : DoClone(i, j)
                        \/ DoReset(i) \/ DoFinReset(i) \/ DoFin(i)
Spec == Init /\ [][Next]_vars
=============================================================================
