------------------------------- MODULE MCGuts -------------------------------
(* Small-constant, exhaustive model of the ChaCha block-level API (guts.rs `ChaCha`):
   refill / refill4 counter handling (C14) and stream parameters / stream equality (C15).
   Words take values 0..W-1; the block function is uninterpreted: a block is identified by its inputs
   <<key, d, drounds>>, so "same bytes" is "same inputs".
   Refill4Impl follows refill_wide_impl: d0123 adds <<j, 0>> to the two 64-bit lanes (d0,d1) and (d2,d3) of every
   block lane, and the state advances by add_pos(lane 0, 4). *)
EXTENDS Integers, Sequences, TLC
CONSTANTS W, KW,        \* values per word; number of key words modelled
          PAIRS          \* TRUE: enumerate pairs of states (C15); FALSE: single states (C14)
Word == 0..(W - 1)
Keys == [1..KW -> Word]
DS == [1..4 -> Word]
\* a 64-bit lane add on a pair of 32-bit words (lo, hi), wrapping
Add64(lo, hi, k) == LET s == lo + W * hi + k IN <<s % W, (s \div W) % W>>
\* ---- single-block path: output_narrow, then inc_block_ct (wrapping 64-bit add on d0,d1)
Block(key, d, dr) == <<key, d, dr>>
Refill(key, d, dr) == LET c == Add64(d[1], d[2], 1) IN <<Block(key, d, dr), <<c[1], c[2], d[3], d[4]>>>>
\* ---- four-block path
D0123(d) == [j \in 0..3 |-> LET c == Add64(d[1], d[2], j)
                                n == Add64(d[3], d[4], 0)
                            IN <<c[1], c[2], n[1], n[2]>>]
Refill4Impl(key, d, dr) == LET lanes == D0123(d)
                               c == Add64(lanes[0][1], lanes[0][2], 4)
                           IN << <<Block(key, lanes[0], dr), Block(key, lanes[1], dr), Block(key, lanes[2], dr), Block(key, lanes[3], dr)>>,
                                 <<c[1], c[2], lanes[0][3], lanes[0][4]>> >>
Refill4Ideal(key, d, dr) == LET r1 == Refill(key, d, dr)
                                r2 == Refill(key, r1[2], dr)
                                r3 == Refill(key, r2[2], dr)
                                r4 == Refill(key, r3[2], dr)
                            IN << <<r1[1], r2[1], r3[1], r4[1]>>, r4[2] >>
\* ---- stream parameters (set_stream_param / get_stream_param); value = <<lo, hi>>
SetParam(d, p, v) == [d EXCEPT ![2 * p + 1] = v[1], ![2 * p + 2] = v[2]]
GetParam(d, p) == <<d[2 * p + 1], d[2 * p + 2]>>
Stream32Eq(k1, d1, k2, d2) == k1 = k2 /\ d1[4] = d2[4] /\ d1[3] = d2[3] /\ d1[2] = d2[2]
Stream64Eq(k1, d1, k2, d2) == k1 = k2 /\ d1[4] = d2[4] /\ d1[3] = d2[3]

VARIABLES key, d, key2, d2, dr
vars == <<key, d, key2, d2, dr>>
Init == /\ key \in Keys /\ d \in DS /\ dr \in 0..1
        /\ IF PAIRS THEN key2 \in Keys /\ d2 \in DS ELSE key2 = key /\ d2 = d
Next == UNCHANGED vars
\* C14
Refill4IsFourRefills == Refill4Impl(key, d, dr) = Refill4Ideal(key, d, dr)
CounterAdvances == LET r == Refill(key, d, dr)
                   IN /\ r[1] = Block(key, d, dr)
                      /\ r[2][1] + W * r[2][2] = (d[1] + W * d[2] + 1) % (W * W)
                      /\ r[2][3] = d[3] /\ r[2][4] = d[4]
\* C15
ParamRoundTrip == \A p \in 0..1 : \A v \in Word \X Word :
                     LET s == SetParam(d, p, v)
                     IN /\ GetParam(s, p) = v
                        /\ GetParam(s, 1 - p) = GetParam(d, 1 - p)
                        /\ SetParam(s, p, GetParam(d, p)) = d
\* the predicates hold exactly when key and all non-counter words agree
Eq32Exact == Stream32Eq(key, d, key2, d2) <=> (key = key2 /\ \A i \in 2..4 : d[i] = d2[i])
Eq64Exact == Stream64Eq(key, d, key2, d2) <=> (key = key2 /\ \A i \in 3..4 : d[i] = d2[i])
\* equal streams produce equal output once the counters are made equal
EqMeansSameOutput == Stream64Eq(key, d, key2, d2) =>
                        Refill(key, SetParam(d, 0, <<0, 0>>), dr)[1] = Refill(key2, SetParam(d2, 0, <<0, 0>>), dr)[1]
=============================================================================
