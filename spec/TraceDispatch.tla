---------------------------- MODULE TraceDispatch ----------------------------
(* `mach` events: which Machine each dispatch macro selected in a given build / under a given override, observed through
   core::any::type_name inside a macro-wrapped function.  Must equal Dispatch!Choice. *)
EXTENDS DispatchFn, Json, IOUtils
Rec == ndJsonDeserialize(IOEnv.TRACE)
N == Len(Rec)
VARIABLES l, phase, bad
tvars == <<l, phase, bad>>
LevelOf(f) == IF f.avx2 THEN 5 ELSE IF f.avx THEN 4 ELSE IF f.sse41 THEN 3 ELSE IF f.ssse3 THEN 2 ELSE IF f.sse2 THEN 1 ELSE 0
Chain(f) == (f.avx2 => f.avx) /\ (f.avx => f.sse41) /\ (f.sse41 => f.ssse3) /\ (f.ssse3 => f.sse2)
Lvl(e) == IF e.mode = "std" /\ e.force > 0 THEN e.force ELSE LevelOf(e.feat)
Check(e) == /\ Chain(e.feat)
            /\ e.dispatch = TypeName(Choice(e.mode, "dispatch", Lvl(e)))
            /\ e.light128 = TypeName(Choice(e.mode, "light128", Lvl(e)))
            /\ e.light256 = TypeName(Choice(e.mode, "light256", Lvl(e)))
TInit == l \in 1..N /\ phase = 0 /\ bad = FALSE
TNext == /\ phase = 0 /\ phase' = 1 /\ l' = l
         /\ bad' = IF Check(Rec[l]) THEN FALSE ELSE PrintT(<<"REJECT", l>>)
=============================================================================
