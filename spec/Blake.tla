------------------------------- MODULE Blake -------------------------------
(* BLAKE-224/256/384/512 (SHA-3 finalist version: 14/16 rounds, unsalted) from the BLAKE submission document:
   G function, round permutations sigma, constants (digits of pi), initial values, counter, padding.
   Words are NLIMB 16-bit limbs (2 for the 32-bit variants, 4 for the 64-bit ones).  Nothing is derived from the implementation. *)
EXTENDS Limbs, TLC
Hex4(h) == h   \* limbs given directly as integers
\* 32-bit word from two 16-bit halves (hi, lo); 64-bit from four (h3,h2,h1,h0)
W32(hi, lo) == <<lo, hi>>
W64(a, b, c, d) == <<d, c, b, a>>
SIGMA == << <<0,1,2,3,4,5,6,7,8,9,10,11,12,13,14,15>>, <<14,10,4,8,9,15,13,6,1,12,0,2,11,7,5,3>>,
            <<11,8,12,0,5,2,15,13,10,14,3,6,7,1,9,4>>, <<7,9,3,1,13,12,11,14,2,6,5,10,4,0,15,8>>,
            <<9,0,5,7,2,4,10,15,14,1,11,12,6,8,3,13>>, <<2,12,6,10,0,11,8,3,4,13,7,5,15,14,1,9>>,
            <<12,5,1,15,14,13,4,10,0,7,6,3,9,2,8,11>>, <<13,11,7,14,12,1,3,9,5,0,15,4,8,6,2,10>>,
            <<6,15,14,9,11,3,0,8,12,2,13,7,1,4,10,5>>, <<10,2,8,4,7,6,1,5,15,11,9,14,3,12,13,0>> >>
\* pi digits, 16-bit pieces
PI16 == <<9279,27272, 34211,2259, 4889,35374, 880,29508, 41993,14370, 10655,12752, 2094,64152, 60494,27785,
          17704,8678, 14544,4983, 48724,26319, 13545,3180, 49324,10679, 51580,20701, 16260,54709, 46407,2327,
          37398,54745, 35193,64283, 53553,2982, 39135,46508, 12285,29403, 53274,57271, 47329,45037, 27174,32406,
          47740,36933, 61740,32665, 9377,39239, 45969,27895, 2049,62178, 34190,64534, 25449,8408, 29015,20073>>
C32 == Force([i \in 1..16 |-> W32(PI16[2 * i - 1], PI16[2 * i])])
C64 == Force([i \in 1..16 |-> W64(PI16[4 * i - 3], PI16[4 * i - 2], PI16[4 * i - 1], PI16[4 * i])])
IV256 == << W32(27145,58983), W32(47975,44677), W32(15470,62322), W32(42319,62778), W32(20750,21119), W32(39685,26764), W32(8067,55723), W32(23520,52505) >>
IV224 == << W32(49413,40664), W32(13948,54535), W32(12400,56599), W32(63246,22841), W32(65472,2865), W32(26712,5393), W32(25849,36775), W32(48890,20388) >>
IV512 == << W64(27145,58983,62396,51464), W64(47975,44677,33994,42811), W64(15470,62322,65172,63531), W64(42319,62778,24349,14065),
            W64(20750,21119,44518,33489), W64(39685,26764,11070,27679), W64(8067,55723,64321,48491), W64(23520,52505,4990,8569) >>
IV384 == << W64(52155,40285,49413,40664), W64(25242,10538,13948,54535), W64(37209,346,12400,56599), W64(5423,60632,63246,22841),
            W64(26419,9831,65472,2865), W64(36532,19079,26712,5393), W64(56076,11789,25849,36775), W64(18357,18461,48890,20388) >>
ROT(nl) == IF nl = 2 THEN <<16, 12, 8, 7>> ELSE <<32, 25, 16, 11>>
G(v, m, c, sg, i, a, b, cc, d, nl) ==
  LET R == ROT(nl)
      a1 == WAdd(WAdd(v[a], v[b]), WXor(m[sg[2 * i + 1] + 1], c[sg[2 * i + 2] + 1]))
      d1 == WRotR(WXor(v[d], a1), R[1])
      c1 == WAdd(v[cc], d1)
      b1 == WRotR(WXor(v[b], c1), R[2])
      a2 == WAdd(WAdd(a1, b1), WXor(m[sg[2 * i + 2] + 1], c[sg[2 * i + 1] + 1]))
      d2 == WRotR(WXor(d1, a2), R[3])
      c2 == WAdd(c1, d2)
      b2 == WRotR(WXor(b1, c2), R[4])
  IN [v EXCEPT ![a] = a2, ![b] = b2, ![cc] = c2, ![d] = d2]
RoundB(v, m, c, r, nl) ==
  LET sg == SIGMA[(r % 10) + 1]
      v0 == G(v, m, c, sg, 0, 1, 5, 9, 13, nl)
      v1 == G(v0, m, c, sg, 1, 2, 6, 10, 14, nl)
      v2 == G(v1, m, c, sg, 2, 3, 7, 11, 15, nl)
      v3 == G(v2, m, c, sg, 3, 4, 8, 12, 16, nl)
      v4 == G(v3, m, c, sg, 4, 1, 6, 11, 16, nl)
      v5 == G(v4, m, c, sg, 5, 2, 7, 12, 13, nl)
      v6 == G(v5, m, c, sg, 6, 3, 8, 9, 14, nl)
  IN G(v6, m, c, sg, 7, 4, 5, 10, 15, nl)
RECURSIVE RoundsB(_, _, _, _, _, _)
RoundsB(v, m, c, r, n, nl) == IF r = n THEN v ELSE RoundsB(RoundB(v, m, c, r, nl), m, c, r + 1, n, nl)
\* h: 8 words; blk: bytes (64 or 128); t: <<t0, t1>> words
Compress(h, blk, t, nl) ==
  LET c == IF nl = 2 THEN C32 ELSE C64
      wb == 2 * nl
      m == Force([i \in 1..16 |-> WOfBE(blk, wb * (i - 1), nl)])
      v == <<h[1], h[2], h[3], h[4], h[5], h[6], h[7], h[8], c[1], c[2], c[3], c[4],
             WXor(t[1], c[5]), WXor(t[1], c[6]), WXor(t[2], c[7]), WXor(t[2], c[8])>>
      w == RoundsB(v, m, c, 0, IF nl = 2 THEN 14 ELSE 16, nl)
  IN Force([i \in 1..8 |-> WXor(WXor(h[i], w[i]), w[i + 8])])
\* The bit counter is one number of 2*nl limbs (low word first); Compress takes it as <<t0, t1>>.
TPair(t, nl) == <<SubSeq(t, 1, nl), SubSeq(t, nl + 1, 2 * nl)>>
TZero(nl) == WZero(2 * nl)
\* digest of a message of which `tbits` bits were already absorbed into chaining value h; rest = remaining bytes (incl. buffered ones)
BlakeFrom(h, tbits, rest, nl, full, outbytes) ==
  LET B == 32 * nl                   \* block bytes: 64 / 128
      LENB == 4 * nl                 \* length field bytes: 8 / 16
      L == Len(rest)
      nfull == L \div B
      r == L % B
      tail == SubSeq(rest, nfull * B + 1, L)
      total == WAdd(tbits, WOfInt(8 * L, 2 * nl))          \* message length in bits
      lenfield == BEOfW(total)
      marker == IF full THEN 1 ELSE 0
      one == r + 1 + LENB <= B
      finals == IF one
                THEN << << (IF r + 1 + LENB = B THEN tail \o <<128 + marker>> ELSE tail \o <<128>> \o Zeros(B - r - 2 - LENB) \o <<marker>>) \o lenfield,
                           IF r = 0 THEN TZero(nl) ELSE total >> >>
                ELSE << << tail \o <<128>> \o Zeros(B - r - 1), total >>,
                        << Zeros(B - LENB - 1) \o <<marker>> \o lenfield, TZero(nl) >> >>
      RECURSIVE Full(_, _)
      Full(hh, i) == IF i > nfull THEN hh
                     ELSE Full(Compress(hh, SubSeq(rest, (i - 1) * B + 1, i * B), TPair(WAdd(tbits, WOfInt(8 * B * i, 2 * nl)), nl), nl), i + 1)
      h1 == Full(h, 1)
      h2 == Compress(h1, finals[1][1], TPair(finals[1][2], nl), nl)
      h3 == IF Len(finals) = 2 THEN Compress(h2, finals[2][1], TPair(finals[2][2], nl), nl) ELSE h2
      bytes == FlattenSeq([i \in 1..8 |-> BEOfW(h3[i])])
  IN SubSeq(bytes, 1, outbytes)
IVOf(alg) == CASE alg = "Blake224" -> IV224 [] alg = "Blake256" -> IV256 [] alg = "Blake384" -> IV384 [] alg = "Blake512" -> IV512
NL(alg) == IF alg \in {"Blake224", "Blake256"} THEN 2 ELSE 4
IsFull(alg) == alg \in {"Blake256", "Blake512"}
OutBytes(alg) == CASE alg = "Blake224" -> 28 [] alg = "Blake256" -> 32 [] alg = "Blake384" -> 48 [] alg = "Blake512" -> 64
BlakeHash(alg, msg) == BlakeFrom(IVOf(alg), TZero(NL(alg)), msg, NL(alg), IsFull(alg), OutBytes(alg))
=============================================================================
