--------------------------------- MODULE JH ---------------------------------
(* JH (SHA-3 finalist, round-3 version: 42 rounds) from the nibble-oriented definition of the JH specification:
   S-boxes S0/S1, linear transformation L over GF(2^4), permutation P_d = phi o P' o pi, round constants generated from C_0
   by the 6-dimensional round function R6, grouping / degrouping, E8, F8, initial values derived as F8(size || 0.., 0),
   padding and truncation.  Nothing is taken from the implementation's bit-sliced form or constant tables. *)
EXTENDS Limbs, TLC
S0 == <<9,0,4,11,13,12,3,15,1,10,2,6,7,5,8,14>>
S1 == <<3,12,6,13,5,7,1,9,15,2,0,4,11,10,14,8>>
\* multiplication by 2 in GF(2^4) mod x^4+x+1
Mul2(a) == LET s == (a * 2) % 16 IN IF a >= 8 THEN s ^^ 3 ELSE s
\* (C,D) = L(A,B):  D = B + 2A ; C = A + 2D
LD(a, b) == b ^^ Mul2(a)
LC(a, b) == a ^^ Mul2(LD(a, b))
\* permutation P_d on n = 2^d elements, as an index map: out[i] = in[Perm(n)[i]]  (0-based inside)
PiIdx(n, i)  == IF i % 4 = 2 THEN i + 1 ELSE IF i % 4 = 3 THEN i - 1 ELSE i
PpIdx(n, i)  == IF i < n \div 2 THEN 2 * i ELSE 2 * (i - n \div 2) + 1
PhiIdx(n, i) == IF i < n \div 2 THEN i ELSE IF i % 2 = 0 THEN i + 1 ELSE i - 1
\* P = phi o P' o pi : out = phi(P'(pi(in)))  => out[i] = in[ pi_idx(pp_idx(phi_idx(i))) ]
PermIdx(n) == Force([k \in 1..n |-> PiIdx(n, PpIdx(n, PhiIdx(n, k - 1))) + 1])
Perm256 == PermIdx(256)
Perm64 == PermIdx(64)
\* one round on n nibbles with round-constant bits cb (tuple of n bits)
Round(a, cb, n, perm) ==
  LET v == Force([k \in 1..n |-> IF cb[k] = 0 THEN S0[a[k] + 1] ELSE S1[a[k] + 1]])
      w == Force([k \in 1..n |-> IF k % 2 = 1 THEN LC(v[k], v[k + 1]) ELSE LD(v[k - 1], v[k])])
  IN Force([k \in 1..n |-> w[perm[k]]])
Zero64 == Force([k \in 1..64 |-> 0])
\* round constants as 64 nibbles; C0 = 6a09e667f3bcc908b2fb1366ea957d3e3adec17512775099da2f590b0667322a
C0 == <<6,10,0,9,14,6,6,7,15,3,11,12,12,9,0,8,11,2,15,11,1,3,6,6,14,10,9,5,7,13,3,14,
        3,10,13,14,12,1,7,5,1,2,7,7,5,0,9,9,13,10,2,15,5,9,0,11,0,6,6,7,3,2,2,10>>
RECURSIVE RC(_)
RC(r) == IF r = 0 THEN C0 ELSE Round(RC(r - 1), Zero64, 64, Perm64)
RCs == [r \in 0..41 |-> RC(r)]          \* constant-level: evaluated once
\* bits of a round constant, MSB first: 256 bits from 64 nibbles
NibBits(c) == Force([k \in 1..256 |-> (c[((k - 1) \div 4) + 1] \div (2^(3 - ((k - 1) % 4)))) % 2])
RCBits == [r \in 0..41 |-> NibBits(RCs[r])]
\* bytes (tuple of 128 ints) -> bits MSB first (1024)
ByteBits(h) == Force([j \in 1..1024 |-> (h[((j - 1) \div 8) + 1] \div (2^(7 - ((j - 1) % 8)))) % 2])
Group(h) == LET b == ByteBits(h)
            IN Force([q \in 1..256 |->
                 LET i == (q - 1) \div 2
                     o == IF (q - 1) % 2 = 0 THEN 0 ELSE 128
                 IN b[i + o + 1] * 8 + b[i + o + 256 + 1] * 4 + b[i + o + 512 + 1] * 2 + b[i + o + 768 + 1]])
\* inverse: bit j (0-based) of output
Degroup(q) == LET bit(j) == LET plane == j \div 256          \* 0..3 -> bit 3-plane of nibble
                                 r == j % 256
                                 i == r % 128
                                 odd == r \div 128
                             IN (q[2 * i + odd + 1] \div (2^(3 - plane))) % 2
              IN Force([k \in 1..128 |-> bit(8*(k-1)) * 128 + bit(8*(k-1)+1) * 64 + bit(8*(k-1)+2) * 32 + bit(8*(k-1)+3) * 16
                                       + bit(8*(k-1)+4) * 8 + bit(8*(k-1)+5) * 4 + bit(8*(k-1)+6) * 2 + bit(8*(k-1)+7)])
RECURSIVE Rounds(_, _)
Rounds(q, r) == IF r = 42 THEN q ELSE Rounds(Round(q, RCBits[r], 256, Perm256), r + 1)
E8(h) == Degroup(Rounds(Group(h), 0))
\* F8(h, m): h 128 bytes, m 64 bytes
F8(h, m) == LET a == Force([k \in 1..128 |-> IF k <= 64 THEN h[k] ^^ m[k] ELSE h[k]])
                e == E8(a)
            IN Force([k \in 1..128 |-> IF k > 64 THEN e[k] ^^ m[k - 64] ELSE e[k]])
ZeroBlk == Zeros(64)
IV(bits) == F8(Force([k \in 1..128 |-> IF k = 1 THEN bits \div 256 ELSE IF k = 2 THEN bits % 256 ELSE 0]), ZeroBlk)
IV224 == IV(224)
IV256 == IV(256)
IV384 == IV(384)
IV512 == IV(512)
\* digest of a message of which `bits` bits (8-limb number) were already absorbed into state h (128 bytes); rest = remaining bytes.
\* Padding: 0x80, zeros, 128-bit big-endian bit length; one extra block when the message is block aligned, two blocks otherwise.
JHFrom(h, bits, rest, outbytes) ==
  LET L == Len(rest)
      nfull == L \div 64
      r == L % 64
      tail == SubSeq(rest, nfull * 64 + 1, L)
      total == WAdd(bits, WOfInt(8 * L, 8))
      lenfield == BEOfW(total)                              \* 16 bytes
      finals == IF r = 0 THEN << <<128>> \o Zeros(47) \o lenfield >>
                ELSE << tail \o <<128>> \o Zeros(63 - r), Zeros(48) \o lenfield >>
      RECURSIVE Full(_, _)
      Full(hh, i) == IF i > nfull THEN hh ELSE Full(F8(hh, SubSeq(rest, (i - 1) * 64 + 1, i * 64)), i + 1)
      h1 == Full(h, 1)
      h2 == F8(h1, finals[1])
      h3 == IF Len(finals) = 2 THEN F8(h2, finals[2]) ELSE h2
  IN SubSeq(h3, 128 - outbytes + 1, 128)
IVOf(alg) == CASE alg = "Jh224" -> IV224 [] alg = "Jh256" -> IV256 [] alg = "Jh384" -> IV384 [] alg = "Jh512" -> IV512
OutBytes(alg) == CASE alg = "Jh224" -> 28 [] alg = "Jh256" -> 32 [] alg = "Jh384" -> 48 [] alg = "Jh512" -> 64
JHHash(alg, msg) == JHFrom(IVOf(alg), WZero(8), msg, OutBytes(alg))
=============================================================================
