CONSTANTS
  B = 6
  FOOT = 2
  KIND = "jh"
  CW = 8
  MAXLEN = 20
  MAXPIECE = 14
INIT Init
NEXT Next
CHECK_DEADLOCK FALSE
INVARIANTS Coherent CounterExact FinalRight
