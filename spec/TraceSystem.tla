------------------------------ MODULE TraceSystem ------------------------------
(* Trace validation for C18 (instance interleaving): ONE thread interleaves operations on several live instances of mixed
   types - stream ciphers (ids in `cs`) and hashers (ids in `hs`, clones included).  The monitor is the product of the ideal
   per-instance specifications (StreamIdeal, HashIdeal): a step on instance i reads and writes only the monitor state of i,
   so any hidden shared state in the implementation shows up as a rejected observation of some instance. *)
EXTENDS Sequences, Integers, Json, IOUtils, TLC
S == INSTANCE StreamIdeal
H == INSTANCE HashIdeal
Rec == ndJsonDeserialize(IOEnv.TRACE)
N == Len(Rec)
VARIABLES l, cs, hs, bad
vars == <<l, cs, hs, bad>>
Starts == {i \in 1..N : Rec[i].k = 0}
CIds == 1..6
NoCipher == [alive |-> FALSE]
CipherEvents == {"seek", "apply", "pos"}
HashEvents == {"hadd", "upd", "clone", "reset", "ref", "finreset", "fin"}
Init == \E i \in Starts : /\ l = i /\ bad = FALSE
                          /\ cs = [k \in CIds |-> NoCipher]
                          /\ hs = [k \in H!Ids |-> H!NoInst]
Next == /\ ~bad /\ l < N /\ Rec[l + 1].k # 0
        /\ LET e == Rec[l + 1] IN
           /\ l' = l + 1
           /\ IF e.ev = "cnew"
              THEN /\ cs' = [cs EXCEPT ![e.i] = [alive |-> TRUE, s |-> S!InitSt(e)]]
                   /\ UNCHANGED hs
                   /\ bad' = IF ~cs[e.i].alive THEN FALSE ELSE PrintT(<<"REJECT", l + 1>>)
              ELSE IF e.ev \in CipherEvents
              THEN LET r == S!Step(cs[e.i].s, e)
                   IN /\ cs' = [cs EXCEPT ![e.i].s = r[2]]
                      /\ UNCHANGED hs
                      /\ bad' = IF cs[e.i].alive /\ r[1] THEN FALSE ELSE PrintT(<<"REJECT", l + 1>>)
              ELSE LET r == H!Step(hs, e, Rec[l], l + 1)
                   IN /\ hs' = r[2]
                      /\ UNCHANGED cs
                      /\ bad' = IF r[1] THEN FALSE ELSE PrintT(<<"REJECT", l + 1>>)
Spec == Init /\ [][Next]_vars
=============================================================================
