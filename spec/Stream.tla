------------------------------- MODULE Stream -------------------------------
(* Implementation-shaped model of c2-chacha's buffered stream cipher (rustcrypto_impl.rs `Buffer`
   + guts.rs counter handling) together with the ideal semantics (ghost variables), over an
   abstract number interface so that the same text is checked
     - exhaustively at small constants with plain Int      (MCStreamSmall), and
     - at the real constants (BLOCK = 64, 2^32 / 2^64) with 16-bit limbs (MCStreamReal),
       where TLC's state graph is dumped and every edge is replayed on the real code.
   One operator per code section of Buffer::try_apply_keystream:
     LazyFill (l.42-47)  Check (l.48-59)  Drain (l.60-66)  Wide (l.67-78)  TailBlocks (l.79-87)
   The model describes the code after the `fix:` commits (wrapping counter arithmetic, IETF nonce
   word restored after the 64-bit guts increment, range-checked try_seek, computed try_current_pos);
   FIXED = FALSE gives the code as found (used only to show that TLC finds the defects). *)
EXTENDS Integers, Sequences, TLC

CONSTANTS BLOCK, BUFBLOCKS,
          FIXED,
          N0, NI(_), NAdd(_, _), NSub(_, _), NLt(_, _),
          NDivB(_), NMulB(_), NModB(_),
          NLo(_), NHi(_), NJoin(_, _), NM64(_),
          NW32, NW64

VARIABLES variant,   \* "ietf": 32-bit block counter, word 13 is a nonce word | "c64": 64-bit counter
          ctr,       \* the guts' 64-bit counter (words 12,13 of the ChaCha state) as one number
          nonce0,    \* ghost: the value word 13 must keep for ietf
          have,      \* Buffer.have: >0 unused bytes in `out`; <0 lazily pending offset after a seek
          len,       \* Buffer.len: blocks remaining (mod 2^64)
          fresh,     \* Buffer.fresh: extra bit distinguishing "2^64 left" from "0 left"
          outblk,    \* ghost: guts counter value the buffered block was generated from
          pos,       \* ghost: ideal absolute byte position
          last,      \* observable outcome of the last call (hidden from the state graph by VIEW)
          panicked
vars == <<variant, ctr, nonce0, have, len, fresh, outblk, pos, last, panicked>>
View == <<variant, ctr, nonce0, have, len, fresh, outblk, pos>>

BUFSZ == BLOCK * BUFBLOCKS
NLe(a, b) == a = b \/ NLt(a, b)
TotalBlocks == IF variant = "ietf" THEN NW32 ELSE NW64
TotalBytes == NMulB(TotalBlocks)
U64MAX == NSub(NW64, NI(1))
WrapSub(a, k) == NM64(NSub(NAdd(a, NW64), NI(k)))      \* u64::wrapping_sub(a, k), k small
Min2(a, b) == IF a < b THEN a ELSE b

\* ---- guts.rs: 64-bit counter increment shared by every variant (inc_block_ct, add_pos, d0123)
GutsInc(c, k) == NM64(NAdd(c, NI(k)))
GutsIncPanics(c, k) == ~FIXED /\ ~NLt(NAdd(c, NI(k)), NW64)    \* `pos += 1` is overflow-checked in debug builds (as found)

\* block input of ideal block index i (a number): what words 12,13 must be
IdealBlk(i) == IF variant = "ietf" THEN NJoin(NLo(i), nonce0) ELSE NM64(i)

\* ---- Buffer::try_apply_keystream as a chain of code sections; state record threaded through
St == [ctr |-> ctr, have |-> have, len |-> len, fresh |-> fresh, outblk |-> outblk, segs |-> <<>>, panic |-> FALSE]

Refill1(s) == [s EXCEPT !.outblk = s.ctr, !.ctr = GutsInc(s.ctr, 1), !.panic = s.panic \/ GutsIncPanics(s.ctr, 1)]

LazyFill(s) == IF s.have < 0
               THEN LET r == Refill1(s)
                    IN [r EXCEPT !.have = s.have + BLOCK,
                                 !.len = WrapSub(r.len, 1),
                                 !.fresh = IF FIXED THEN FALSE ELSE r.fresh,
                                 !.panic = r.panic \/ (~FIXED /\ r.len = N0)]      \* `self.len -= 1` (as found)
               ELSE s

\* overflow check; returns <<ok, s'>>
Check(s, n) == LET ready == Min2(s.have, n)
                   dl == n - ready
                   need == (dl \div BLOCK) + (IF dl % BLOCK # 0 THEN 1 ELSE 0)
                   o == NLt(s.len, NI(need))
               IN IF o /\ ~s.fresh THEN <<FALSE, s>>
                  ELSE <<TRUE, [s EXCEPT !.len = WrapSub(s.len, need), !.fresh = s.fresh /\ need = 0]>>

\* a segment <<blk, from, to>>: bytes from..to-1 of the keystream block generated from counter blk were XORed, in order
Drain(s, n) == LET ready == Min2(s.have, n)
               IN IF ready > 0
                  THEN [s EXCEPT !.segs = Append(s.segs, <<s.outblk, BLOCK - s.have, BLOCK - s.have + ready>>),
                                 !.have = s.have - ready]
                  ELSE s

RECURSIVE Wide(_, _)
Wide(s, k) == IF k = 0 THEN s
              ELSE LET add == [j \in 1..BUFBLOCKS |-> <<GutsInc(s.ctr, j - 1), 0, BLOCK>>]
                   IN Wide([s EXCEPT !.segs = s.segs \o add, !.ctr = GutsInc(s.ctr, BUFBLOCKS)], k - 1)

RECURSIVE TailBlocks(_, _)
TailBlocks(s, rem) == IF rem = 0 THEN s
                      ELSE LET take == Min2(rem, BLOCK)
                               r == Refill1(s)
                           IN TailBlocks([r EXCEPT !.segs = Append(r.segs, <<r.outblk, 0, take>>), !.have = BLOCK - take], rem - take)

\* ChaChaAny::try_apply_keystream: for the 32-bit-counter variant the nonce word is put back after the call
RestoreNonce(s, hi) == IF FIXED /\ variant = "ietf" THEN [s EXCEPT !.ctr = NJoin(NLo(s.ctr), hi)] ELSE s

ApplyImpl(n) == LET hi == NHi(ctr)
                    s1 == LazyFill(St)
                    c  == Check(s1, n)
                IN IF ~c[1] THEN <<FALSE, RestoreNonce(s1, hi)>>
                   ELSE LET s2 == Drain(c[2], n)
                            rest == n - Min2(s1.have, n)
                            s3 == Wide(s2, rest \div BUFSZ)
                            s4 == TailBlocks(s3, rest % BUFSZ)
                        IN <<TRUE, RestoreNonce(s4, hi)>>

\* ---- the property: ideal semantics --------------------------------------------------------------
RECURSIVE IdealSegs(_, _)
IdealSegs(p, n) == IF n = 0 THEN <<>>
                   ELSE LET off == NModB(p)
                            take == Min2(BLOCK - off, n)
                        IN <<<<IdealBlk(NDivB(p)), off, off + take>>>> \o IdealSegs(NAdd(p, NI(take)), n - take)
IdealApplyOk(n) == NLe(NAdd(pos, NI(n)), TotalBytes)
\* a seek target given as an unsigned 64-bit byte position
IdealSeekOk(p) == NLe(p, TotalBytes)

Commit(s) == /\ ctr' = s.ctr /\ have' = s.have /\ len' = s.len /\ fresh' = s.fresh /\ outblk' = s.outblk
             /\ panicked' = (panicked \/ s.panic)

Apply(n) == LET r == ApplyImpl(n)
            IN /\ Commit(r[2])
               /\ last' = [op |-> "apply", n |-> n, ok |-> r[1], segs |-> IF r[1] THEN r[2].segs ELSE <<>>,
                           wantok |-> IdealApplyOk(n), want |-> IF IdealApplyOk(n) THEN IdealSegs(pos, n) ELSE <<>>]
               /\ pos' = IF IdealApplyOk(n) THEN NAdd(pos, NI(n)) ELSE pos
               /\ UNCHANGED <<variant, nonce0>>

\* try_seek after the conversion of the argument to u64 succeeded (p <= U64MAX)
Seek(p) == LET blk == NDivB(p)
               off == NModB(p)
               inrange == IF variant = "ietf" THEN NLt(blk, NW32) \/ (blk = NW32 /\ off = 0) ELSE TRUE
           IN IF ~inrange
              THEN /\ last' = [op |-> "seek", ok |-> FALSE, wantok |-> IdealSeekOk(p)]
                   /\ panicked' = (panicked \/ ~FIXED)          \* assert! in seek32 (as found)
                   /\ UNCHANGED <<variant, ctr, nonce0, have, len, fresh, outblk, pos>>
              ELSE /\ ctr' = IF variant = "ietf" THEN NJoin(NLo(blk), NHi(ctr)) ELSE blk
                   /\ len' = IF variant = "ietf" THEN NSub(NW32, blk) ELSE NM64(NSub(NW64, blk))
                   /\ fresh' = IF variant = "ietf" THEN fresh ELSE blk = N0
                   /\ have' = -off
                   /\ pos' = p
                   /\ last' = [op |-> "seek", ok |-> TRUE, wantok |-> IdealSeekOk(p)]
                   /\ UNCHANGED <<variant, nonce0, outblk, panicked>>

\* try_seek with an argument the conversion to u64 rejects (negative i32, u128 above 2^64-1): Err, no effect
SeekUnconvertible == /\ last' = [op |-> "seek", ok |-> FALSE, wantok |-> FALSE]
                     /\ UNCHANGED <<variant, ctr, nonce0, have, len, fresh, outblk, pos, panicked>>

\* try_current_pos as implemented by the fix: blocks consumed from `len`, minus what is still buffered
PosImpl == LET blocks == IF variant = "ietf" THEN NSub(NW32, len)
                         ELSE IF len = N0 /\ ~fresh THEN NW64 ELSE NM64(NSub(NW64, len))
               base == NMulB(blocks)
           IN IF have >= 0 THEN NSub(base, NI(have)) ELSE NAdd(base, NI(-have))
CurrentPos == /\ last' = [op |-> "pos", got |-> IF FIXED THEN PosImpl ELSE N0, want |-> pos]
              /\ panicked' = (panicked \/ ~FIXED)                \* unimplemented!() (as found)
              /\ UNCHANGED <<variant, ctr, nonce0, have, len, fresh, outblk, pos>>

InitFor(v, nz) == /\ variant = v /\ nonce0 = nz
                  /\ ctr = (IF v = "ietf" THEN NJoin(N0, nz) ELSE N0)
                  /\ have = 0 /\ len = (IF v = "ietf" THEN NW32 ELSE N0) /\ fresh = (v # "ietf")
                  /\ outblk = N0 /\ pos = N0 /\ last = [op |-> "new"] /\ panicked = FALSE

\* ---- properties of every call (action properties: `last` and `panicked` are hidden by the VIEW, and TLC checks
\* state invariants only on states it has not seen, but implied actions on every transition) -------------
NoPanicA == ~panicked'
OutputAtAbsolutePosA == last'.op = "apply" => (last'.ok = last'.wantok /\ last'.segs = last'.want)
SeekTotalA == last'.op = "seek" => last'.ok = last'.wantok
CurrentPosRightA == last'.op = "pos" => last'.got = last'.want
\* a failed apply leaves the ideal position where it was (data untouched is part of the trace validation)
FailedApplyKeepsPosA == (last'.op = "apply" /\ ~last'.ok) => pos' = pos
NoPanic == [][NoPanicA]_vars
OutputAtAbsolutePos == [][OutputAtAbsolutePosA]_vars
SeekTotal == [][SeekTotalA]_vars
CurrentPosRight == [][CurrentPosRightA]_vars
FailedApplyKeepsPos == [][FailedApplyKeepsPosA]_vars
\* ---- state invariants -------------------------------------------------------------------------------
NonceIntact == variant = "ietf" => NHi(ctr) = nonce0
\* (counter * BLOCK - have) is the ideal position, modulo the keystream length
PosCoherent == LET c == IF variant = "ietf" THEN NLo(ctr) ELSE ctr
                   x == NAdd(NMulB(c), TotalBytes)
                   y == IF have >= 0 THEN NSub(x, NI(have)) ELSE NAdd(x, NI(-have))
                   red(z) == IF NLe(TotalBytes, z) THEN (IF NLe(TotalBytes, NSub(z, TotalBytes)) THEN NSub(NSub(z, TotalBytes), TotalBytes) ELSE NSub(z, TotalBytes)) ELSE z
               IN red(y) = red(pos)
BufferedBlockRight == have > 0 => outblk = IdealBlk(NDivB(NSub(pos, NI(1))))
\* blocks left (len, fresh) agree with the ideal position whenever nothing is lazily pending
LenCoherent == LET used == NDivB(NAdd(pos, NI(BLOCK - 1)))          \* ceil(pos / BLOCK) = blocks generated or skipped
               IN have >= 0 => (IF variant = "ietf" THEN len = NSub(NW32, used)
                                ELSE len = NM64(NSub(NW64, used)) /\ (fresh => used = N0))
=============================================================================
