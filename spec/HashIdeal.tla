------------------------------- MODULE HashIdeal -------------------------------
(* The IDEAL incremental-hashing specification (C08) as pure step functions over a map instance id -> [alive, alg, n, msg]
   where msg is the ghost message (bytes since the last reset, following clone ancestry); used by TraceHashBuf and TraceSystem. *)
EXTENDS Blake, TLC
Ids == 1..8
NoInst == [alive |-> FALSE, alg |-> "", n |-> 0, msg |-> <<>>]
New(alg, n) == [alive |-> TRUE, alg |-> alg, n |-> n, msg |-> <<>>]
IsBlake(alg) == alg \in {"Blake224", "Blake256", "Blake384", "Blake512"}
DigestOk(s, e, prev) ==
  /\ e.res = "ok" /\ Len(e.out) = s.n
  /\ prev.ev = "ref" /\ prev.out = e.out
  /\ (IsBlake(s.alg) /\ Len(s.msg) <= 400) => e.out = BlakeHash(s.alg, s.msg)
RefUsable(s, prev) == prev.ev = "ref" /\ prev.alg = s.alg /\ prev.msg = s.msg
\* returns <<accepted, st'>>
Step(s, e, prev, idx) ==
  CASE e.ev = "hadd" -> <<e.res = "ok" /\ ~s[e.i].alive, [s EXCEPT ![e.i] = New(e.alg, e.n)]>>
    [] e.ev = "upd" -> <<e.res = "ok" /\ s[e.i].alive, [s EXCEPT ![e.i].msg = s[e.i].msg \o e.data]>>
    [] e.ev = "clone" -> <<e.res = "ok" /\ s[e.i].alive, [s EXCEPT ![e.j] = s[e.i]]>>
    [] e.ev = "reset" -> <<e.res = "ok" /\ s[e.i].alive, [s EXCEPT ![e.i].msg = <<>>]>>
    [] e.ev = "ref" -> <<TRUE, s>>
    [] e.ev = "finreset" -> <<IF RefUsable(s[e.i], prev) THEN DigestOk(s[e.i], e, prev) ELSE PrintT(<<"REFMISMATCH", idx>>) /\ FALSE,
                              [s EXCEPT ![e.i].msg = <<>>]>>
    [] e.ev = "fin" -> <<IF RefUsable(s[e.i], prev) THEN DigestOk(s[e.i], e, prev) ELSE PrintT(<<"REFMISMATCH", idx>>) /\ FALSE,
                         [s EXCEPT ![e.i] = NoInst]>>
=============================================================================
