------------------------------ MODULE DispatchFn ------------------------------
(* The three ppv-lite86 dispatch macros (dispatch!, dispatch_light128!, dispatch_light256!) as decision procedures:
   (build mode, CPU / target feature level) -> Machine.   Feature levels form a chain on x86-64:
       1 = sse2, 2 = +ssse3, 3 = +sse4.1, 4 = +avx, 5 = +avx2
   mode "std"    : run-time detection (is_x86_feature_detected!), each implementation behind #[target_feature]
   mode "nostd"  : compile-time selection by cfg!(target_feature = ..)
   mode "nosimd" : the portable backend (feature no_simd / non-x86 targets)                                        *)
EXTENDS Integers, Sequences, TLC
Modes == {"std", "nostd", "nosimd"}
Macros == {"dispatch", "light128", "light256"}
Levels == 1..5
ByLevel(level) == CASE level = 5 -> "AVX2" [] level = 4 -> "AVX" [] level = 3 -> "SSE41" [] level = 2 -> "SSSE3" [] level = 1 -> "SSE2" [] OTHER -> "PANIC"
Choice(mode, macro, level) ==
  CASE mode = "nosimd" -> "Generic"
    [] mode = "std" /\ macro = "dispatch" -> ByLevel(level)
    [] mode = "std" /\ macro # "dispatch" -> IF level >= 4 THEN "AVX" ELSE IF level >= 1 THEN "SSE2" ELSE "PANIC"
    [] mode = "nostd" -> IF level >= 2 THEN ByLevel(level) ELSE "SSE2"
\* instruction-set level the chosen implementation executes with
Needs(mode, m) == CASE m = "AVX2" -> 5 [] m = "AVX" -> 4 [] m = "SSE41" -> 3 [] m = "SSSE3" -> 2 [] m = "SSE2" -> 1 [] OTHER -> 0
\* Rust type names (core::any::type_name) of the Machine types; AVX and SSE4.1 are the same type
P == "ppv_lite86::x86_64::"
SseName(s3, s4) == P \o "SseMachine<" \o P \o s3 \o ", " \o P \o s4 \o ", " \o P \o "NoNI>"
TypeName(m) == CASE m = "AVX2" -> P \o "Avx2Machine<" \o P \o "NoNI>"
                 [] m \in {"AVX", "SSE41"} -> SseName("YesS3", "YesS4")
                 [] m = "SSSE3" -> SseName("YesS3", "NoS4")
                 [] m = "SSE2" -> SseName("NoS3", "NoS4")
                 [] m = "Generic" -> "ppv_lite86::generic::GenericMachine"
                 [] OTHER -> "?"
=============================================================================
