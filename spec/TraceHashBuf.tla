---------------------------- MODULE TraceHashBuf ----------------------------
(* Trace validation for C08 (and the hasher part of C18): histories over several live hasher instances.
   The monitor keeps, per instance id, the algorithm and the GHOST MESSAGE (bytes fed since the last reset, following clone
   ancestry) exactly as HashInst.tla defines it.  finalize / finalize_reset must return the digest of the ghost message:
     - a `ref` event immediately before carries the implementation's ONE-SHOT digest of a message; it is usable only if its
       algorithm and message equal the monitor's own ghost message (otherwise REFMISMATCH: a harness bug, not a violation);
     - for BLAKE and short messages the digest is additionally recomputed from Blake.tla.
   One-shot digests themselves are tied to the specifications by C04-C07. *)
EXTENDS HashIdeal, Json, IOUtils
Rec == ndJsonDeserialize(IOEnv.TRACE)
N == Len(Rec)
VARIABLES l, st, bad
vars == <<l, st, bad>>
Starts == {i \in 1..N : Rec[i].k = 0}
Init == \E i \in Starts : /\ l = i /\ bad = FALSE
                          /\ st = [k \in Ids |-> IF k = 1 THEN New(Rec[i].alg, Rec[i].n) ELSE NoInst]
Next == /\ ~bad /\ l < N /\ Rec[l + 1].k # 0
        /\ LET e == Rec[l + 1]
               r == Step(st, e, Rec[l], l + 1)
           IN /\ l' = l + 1
              /\ st' = r[2]
              /\ bad' = IF r[1] THEN FALSE ELSE PrintT(<<"REJECT", l + 1>>)
Spec == Init /\ [][Next]_vars
=============================================================================
