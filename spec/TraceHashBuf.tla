---------------------------- MODULE TraceHashBuf ----------------------------
(* Trace validation for C08 (and the hasher part of C18): histories over several live hasher instances.
   The monitor keeps, per instance id, the algorithm and the GHOST MESSAGE (bytes fed since the last reset, following clone
   ancestry) exactly as HashInst.tla defines it.  finalize / finalize_reset must return the digest of the ghost message:
     - a `ref` event immediately before carries the implementation's ONE-SHOT digest of a message; it is usable only if its
       algorithm and message equal the monitor's own ghost message (otherwise REFMISMATCH: a harness bug, not a violation);
     - for BLAKE and short messages the digest is additionally recomputed from Blake.tla.
   One-shot digests themselves are tied to the specifications by C04-C07. *)
EXTENDS Blake, Json, IOUtils, TLC
Rec == ndJsonDeserialize(IOEnv.TRACE)
N == Len(Rec)
VARIABLES l, st, bad
vars == <<l, st, bad>>
Starts == {i \in 1..N : Rec[i].k = 0}
Ids == 1..8
NoInst == [alive |-> FALSE, alg |-> "", n |-> 0, msg |-> <<>>]
New(alg, n) == [alive |-> TRUE, alg |-> alg, n |-> n, msg |-> <<>>]
IsBlake(alg) == alg \in {"Blake224", "Blake256", "Blake384", "Blake512"}
DigestOk(s, e, prev) ==
  /\ e.res = "ok" /\ Len(e.out) = s.n
  /\ prev.ev = "ref" /\ prev.out = e.out
  /\ (IsBlake(s.alg) /\ Len(s.msg) <= 400) => e.out = BlakeHash(s.alg, s.msg)
RefUsable(s, prev) == prev.ev = "ref" /\ prev.alg = s.alg /\ prev.msg = s.msg
\* returns <<accepted, st'>>
Step(s, e, prev) ==
  CASE e.ev = "hadd" -> <<e.res = "ok" /\ ~s[e.i].alive, [s EXCEPT ![e.i] = New(e.alg, e.n)]>>
    [] e.ev = "upd" -> <<e.res = "ok" /\ s[e.i].alive, [s EXCEPT ![e.i].msg = s[e.i].msg \o e.data]>>
    [] e.ev = "clone" -> <<e.res = "ok" /\ s[e.i].alive, [s EXCEPT ![e.j] = s[e.i]]>>
    [] e.ev = "reset" -> <<e.res = "ok" /\ s[e.i].alive, [s EXCEPT ![e.i].msg = <<>>]>>
    [] e.ev = "ref" -> <<TRUE, s>>
    [] e.ev = "finreset" -> <<IF RefUsable(s[e.i], prev) THEN DigestOk(s[e.i], e, prev) ELSE PrintT(<<"REFMISMATCH", l + 1>>) /\ FALSE,
                              [s EXCEPT ![e.i].msg = <<>>]>>
    [] e.ev = "fin" -> <<IF RefUsable(s[e.i], prev) THEN DigestOk(s[e.i], e, prev) ELSE PrintT(<<"REFMISMATCH", l + 1>>) /\ FALSE,
                         [s EXCEPT ![e.i] = NoInst]>>
Init == \E i \in Starts : /\ l = i /\ bad = FALSE
                          /\ st = [k \in Ids |-> IF k = 1 THEN New(Rec[i].alg, Rec[i].n) ELSE NoInst]
Next == /\ ~bad /\ l < N /\ Rec[l + 1].k # 0
        /\ LET e == Rec[l + 1]
               r == Step(st, e, Rec[l])
           IN /\ l' = l + 1
              /\ st' = r[2]
              /\ bad' = IF r[1] THEN FALSE ELSE PrintT(<<"REJECT", l + 1>>)
Spec == Init /\ [][Next]_vars
=============================================================================
