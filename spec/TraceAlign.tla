------------------------------ MODULE TraceAlign ------------------------------
(* Trace validation for C16.  One episode = one child process exercising one API group on buffers that (a) end at the last
   byte before an unmapped page, (b) start at the first byte after one, (c) sit at interior alignments between canaries.
   The function specifications have no address variable, so every result must equal the reference result computed on an
   ordinary heap buffer (`ref`; those are validated against the specifications by C01/C04-C10/C13/C14), canaries must be
   intact, every `call` must be followed by its `ret`, and the episode must end with `done`: a `crash` record (child killed
   by SIGSEGV/SIGBUS/abort) or a missing `ret` is a rejection. *)
EXTENDS Sequences, Integers, Json, IOUtils, TLC
Rec == ndJsonDeserialize(IOEnv.TRACE)
N == Len(Rec)
VARIABLES l, pending, bad
vars == <<l, pending, bad>>
Starts == {i \in 1..N : Rec[i].k = 0}
\* returns <<accepted, pending'>>
Step(p, e) == CASE e.ev = "call" -> <<~p, TRUE>>
                [] e.ev = "ret" -> <<p /\ e.res = "ok" /\ e.canary /\ e.out = e.ref, FALSE>>
                [] e.ev = "done" -> <<~p, FALSE>>
                [] e.ev = "crash" -> <<FALSE, p>>
Init == \E i \in Starts : l = i /\ pending = FALSE /\ bad = FALSE
Next == /\ ~bad /\ l < N /\ Rec[l + 1].k # 0
        /\ LET r == Step(pending, Rec[l + 1])
           IN /\ l' = l + 1 /\ pending' = r[2]
              /\ bad' = IF r[1] THEN FALSE ELSE PrintT(<<"REJECT", l + 1>>)
Spec == Init /\ [][Next]_vars
\* every episode must be closed by `done`
Closed == (l = N \/ Rec[l + 1].k = 0) => (bad \/ Rec[l].ev = "done")
=============================================================================
