---------------------------- MODULE Skein ----------------------------
(* Skein 1.3 simple hashing (sequential, no key, no tree): configuration UBI, message UBI, counter-mode output. *)
EXTENDS Threefish
\* ---------------- Skein (simple hash, sequential) ----------------
\* tweak word 1 = flags/type in the top limb: bit 63 final, bit 62 first, bits 61..56 type
T1(first, final, type) == <<0, 0, 0, (IF final THEN 32768 ELSE 0) + (IF first THEN 16384 ELSE 0) + type * 256>>
TCFG == 4
TMSG == 48
TOUT == 63
Zeros(k) == Force([i \in 1..k |-> 0])
\* one UBI block: chaining g (words), block bytes (full size), position after this block (64-bit word), flags
UBIBlockW(g, blkbytes, posW, first, final, type) ==
  LET m == WordsOf(blkbytes)
      c == Encrypt(g, posW, T1(first, final, type), m)
  IN Force([i \in 1..Len(m) |-> Xor64(c[i], m[i])])
UBIBlock(g, blkbytes, posafter, first, final, type) == UBIBlockW(g, blkbytes, OfInt64(posafter), first, final, type)
RECURSIVE UBIMsgW(_, _, _, _, _, _, _)
\* message UBI continuing after `base` bytes (64-bit word) have been absorbed into g; firstflag: no message block processed yet.
\* At least one block is processed; the last block (possibly partial / empty) is final and zero padded.
UBIMsgW(g, msg, done, nb, type, base, firstflag) ==
  LET rest == Len(msg) - done
  IN IF rest <= nb
     THEN UBIBlockW(g, SubSeq(msg, done + 1, Len(msg)) \o Zeros(nb - rest), Add64(base, OfInt64(Len(msg))), firstflag /\ done = 0, TRUE, type)
     ELSE UBIMsgW(UBIBlockW(g, SubSeq(msg, done + 1, done + nb), Add64(base, OfInt64(done + nb)), firstflag /\ done = 0, FALSE, type),
                  msg, done + nb, nb, type, base, firstflag)
LE8(n) == <<n % 256, (n \div 256) % 256, (n \div 65536) % 256, (n \div 16777216) % 256, 0, 0, 0, 0>>
\* chaining value after the configuration block for `outbytes` bytes of output
SkeinIV(nb, outbytes) ==
  LET cfg == <<83, 72, 65, 51, 1, 0, 0, 0>> \o LE8(8 * outbytes) \o Zeros(nb - 16)     \* "SHA3", version 1, output bits, tree info 0
  IN UBIBlock(Force([i \in 1..(nb \div 8) |-> Z64]), cfg, 32, TRUE, TRUE, TCFG)
\* output stage: Threefish in counter mode over the final chaining value
SkeinOut(g1, nb, outbytes) ==
  LET nout == (outbytes + nb - 1) \div nb
      RECURSIVE Out(_)
      Out(i) == IF i = nout THEN <<>> ELSE BytesOf(UBIBlock(g1, LE8(i) \o Zeros(nb - 8), 8, TRUE, TRUE, TOUT)) \o Out(i + 1)
  IN SubSeq(Out(0), 1, outbytes)
\* output blocks b0 .. b0+k-1 of the output stage (for digests too long to recompute whole): the bytes they contribute to a digest
\* of `outbytes` bytes
SkeinOutWin(g1, nb, outbytes, b0, k) ==
  LET RECURSIVE Out(_)
      Out(i) == IF i = b0 + k THEN <<>> ELSE BytesOf(UBIBlock(g1, LE8(i) \o Zeros(nb - 8), 8, TRUE, TRUE, TOUT)) \o Out(i + 1)
      avail == outbytes - b0 * nb
  IN SubSeq(Out(b0), 1, IF k * nb < avail THEN k * nb ELSE avail)
SkeinHashWin(msg, nb, outbytes, b0, k) == SkeinOutWin(UBIMsgW(SkeinIV(nb, outbytes), msg, 0, nb, TMSG, Z64, TRUE), nb, outbytes, b0, k)
\* digest of a message whose first `base` bytes were already absorbed into chaining value g (rest = remaining bytes incl. buffered ones)
SkeinFrom(g, rest, nb, outbytes, base, firstflag) == SkeinOut(UBIMsgW(g, rest, 0, nb, TMSG, base, firstflag), nb, outbytes)
SkeinHash(msg, nb, outbytes) == SkeinFrom(SkeinIV(nb, outbytes), msg, nb, outbytes, Z64, TRUE)
=============================================================================
