------------------------------- MODULE Limbs -------------------------------
(* Fixed-width machine words as little-endian tuples of 16-bit limbs.
   TLC integers are 32-bit, so a u32 is <<lo, hi>>, a u64 is four limbs, a u128 eight;
   stream positions / big counters use as many limbs as they need.
   Every operator returns an explicit (forced) tuple: TLC does not memoise lazy
   function values, see DESIGN.md section 3. *)
EXTENDS Integers, Sequences, Bitwise

LB == 65536
Force(f) == f \o <<>>
Pow2(k) == 2^k                      \* k <= 30

Min2(a, b) == IF a < b THEN a ELSE b
Max2(a, b) == IF a < b THEN b ELSE a

\* ---------------------------------------------------------------- generic n-limb words
WZero(n) == Force([i \in 1..n |-> 0])
WOnes(n) == Force([i \in 1..n |-> LB - 1])
WOfInt(x, n) == Force([i \in 1..n |-> IF i = 1 THEN x % LB ELSE IF i = 2 THEN (x \div LB) % LB ELSE 0])   \* 0 <= x < 2^31

RECURSIVE AddCarry(_, _, _, _)
AddCarry(a, b, i, c) == IF i > Len(a) THEN <<>>
                        ELSE LET s == a[i] + b[i] + c IN <<s % LB>> \o AddCarry(a, b, i + 1, s \div LB)
WAdd(a, b) == AddCarry(a, b, 1, 0)                       \* mod 2^(16 n)
RECURSIVE CarryOut(_, _, _, _)
CarryOut(a, b, i, c) == IF i > Len(a) THEN c ELSE CarryOut(a, b, i + 1, (a[i] + b[i] + c) \div LB)
WAddOverflows(a, b) == CarryOut(a, b, 1, 0) = 1

RECURSIVE SubBorrow(_, _, _, _)
SubBorrow(a, b, i, c) == IF i > Len(a) THEN <<>>
                         ELSE LET d == a[i] - b[i] - c IN <<(d + LB) % LB>> \o SubBorrow(a, b, i + 1, IF d < 0 THEN 1 ELSE 0)
WSub(a, b) == SubBorrow(a, b, 1, 0)                      \* mod 2^(16 n)

WXor(a, b) == Force([i \in 1..Len(a) |-> a[i] ^^ b[i]])
WAnd(a, b) == Force([i \in 1..Len(a) |-> a[i] & b[i]])
WOr(a, b)  == Force([i \in 1..Len(a) |-> a[i] | b[i]])
WNot(a)    == Force([i \in 1..Len(a) |-> (LB - 1) - a[i]])

RECURSIVE WLtFrom(_, _, _)
WLtFrom(a, b, i) == IF i = 0 THEN FALSE
                    ELSE IF a[i] < b[i] THEN TRUE ELSE IF a[i] > b[i] THEN FALSE ELSE WLtFrom(a, b, i - 1)
WLt(a, b) == WLtFrom(a, b, Len(a))
WLe(a, b) == a = b \/ WLt(a, b)

\* rotate right by r bits, 0 <= r < 16 n
WRotR(a, r) == LET n == Len(a)
                   k == r \div 16
                   s == r % 16
                   x == Force([i \in 1..n |-> a[((i - 1 + k) % n) + 1]])
               IN IF s = 0 THEN x
                  ELSE Force([i \in 1..n |-> (x[i] \div 2^s) + ((x[(i % n) + 1] % 2^s) * 2^(16 - s))])
WRotL(a, r) == LET bits == 16 * Len(a) IN WRotR(a, (bits - (r % bits)) % bits)

\* logical shifts by 0 <= r < 16 n
WShr(a, r) == LET n == Len(a)
                  k == r \div 16
                  s == r % 16
                  x == Force([i \in 1..n |-> IF i + k <= n THEN a[i + k] ELSE 0])
              IN IF s = 0 THEN x
                 ELSE Force([i \in 1..n |-> (x[i] \div 2^s) + ((IF i < n THEN x[i + 1] % 2^s ELSE 0) * 2^(16 - s))])
WShl(a, r) == LET n == Len(a)
                  k == r \div 16
                  s == r % 16
                  x == Force([i \in 1..n |-> IF i - k >= 1 THEN a[i - k] ELSE 0])
              IN IF s = 0 THEN x
                 ELSE Force([i \in 1..n |-> ((x[i] * 2^s) % LB) + (IF i > 1 THEN x[i - 1] \div 2^(16 - s) ELSE 0)])

\* resize (zero-extend or truncate)
WResize(a, n) == Force([i \in 1..n |-> IF i <= Len(a) THEN a[i] ELSE 0])
WLowBits(a, k) == a[1] % 2^k                              \* as Int, k <= 16
WIsSmall(a) == \A i \in 1..Len(a) : (i > 2 => a[i] = 0) /\ (i = 2 => a[i] < 16384)
WToInt(a) == a[1] + (IF Len(a) > 1 THEN LB * a[2] ELSE 0) \* only if WIsSmall

\* ---------------------------------------------------------------- bytes <-> words
\* little-endian bytes b[off+1 .. off+2n] -> n-limb word
WOfLE(b, off, n) == Force([i \in 1..n |-> b[off + 2 * i - 1] + 256 * b[off + 2 * i]])
LEOfW(w) == Force([k \in 1..(2 * Len(w)) |-> IF k % 2 = 1 THEN w[(k + 1) \div 2] % 256 ELSE w[k \div 2] \div 256])
\* big-endian
WOfBE(b, off, n) == Force([i \in 1..n |-> b[off + 2 * (n - i) + 1] * 256 + b[off + 2 * (n - i) + 2]])
BEOfW(w) == LET n == Len(w)
            IN Force([k \in 1..(2 * n) |-> LET limb == w[n - ((k - 1) \div 2)] IN IF k % 2 = 1 THEN limb \div 256 ELSE limb % 256])

RECURSIVE FlattenSeq(_)
FlattenSeq(ss) == IF ss = <<>> THEN <<>> ELSE Head(ss) \o FlattenSeq(Tail(ss))

BXor(a, b) == Force([i \in 1..Len(a) |-> a[i] ^^ b[i]])       \* byte strings of equal length
Zeros(k) == Force([i \in 1..k |-> 0])
=============================================================================
