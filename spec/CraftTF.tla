------------------------------- MODULE CraftTF -------------------------------
(* Specification -> implementation direction for C09 / C10: inputs that put a chosen INTERNAL state of Threefish in front of a
   chosen round.  A request names (key, tweak, round boundary d, state e that the MIX layer of round d is to see - i.e. after
   the subkey injection when d % 4 = 0).  The specification runs its rounds backwards from there to obtain the plaintext and
   forwards to obtain the ciphertext; the harness then runs the real cipher on both (E(pt) and D(E(pt)) pass through e, and so
   does D(ct)), and TraceTF validates the recorded results as for every other input.  Random or structured plaintexts reach
   such states (a zero word, equal words, an all-ones word in front of a MIX in the middle of the cipher) with probability
   2^-64 per word; this module reaches them by construction. *)
EXTENDS Threefish, Json, IOUtils, TLC
Rec == ndJsonDeserialize(IOEnv.TRACE)
N == Len(Rec)
VARIABLES l, phase
vars == <<l, phase>>
Craft(q) == LET k == WordsOf(q.key)
                nw == Len(k)
                kx == KeyExt(k)
                t == <<q.t0, q.t1, Xor64(q.t0, q.t1)>>
                e == WordsOf(q.e)
                v == IF q.d % 4 = 0 THEN SubKey(e, Subkey(kx, t, q.d \div 4, nw)) ELSE e
            IN [l |-> l, pt |-> BytesOf(Dec(v, kx, t, q.d, nw)), ct |-> BytesOf(Enc(v, kx, t, q.d, nw))]
Init == l \in 1..N /\ phase = 0
Next == /\ phase = 0 /\ phase' = 1 /\ l' = l
        /\ PrintT(ToJson(Craft(Rec[l])))
Spec == Init /\ [][Next]_vars
=============================================================================
