------------------------------ MODULE VecSkein ------------------------------
(* Published vectors pinning Threefish.tla and Skein.tla: the Threefish known-answer values of the Skein NIST submission
   (zero key/tweak/block and the 10 11 12.. key with tweak 00..0f, plaintext ff fe fd..) and Skein 1.3 digests of the message 0xFF. *)
EXTENDS Skein
Hex(s) == s   \* vectors are given as byte tuples below
Seq0(n) == Force([i \in 1..n |-> 0])
KeyInc(n) == Force([i \in 1..n |-> 16 + i - 1])
PtDec(n) == Force([i \in 1..n |-> 256 - i])
TW0 == <<256, 770, 1284, 1798>>       \* 0x0706050403020100
TW1 == <<2312, 2826, 3340, 3854>>     \* 0x0f0e0d0c0b0a0908
EncB(kb, t0, t1, pb) == BytesOf(Encrypt(WordsOf(kb), t0, t1, WordsOf(pb)))
DecB(kb, t0, t1, cb) == BytesOf(Decrypt(WordsOf(kb), t0, t1, WordsOf(cb)))
TF256Zero == <<132,218,42,31,139,234,238,148,112,102,174,62,49,3,241,173,83,109,177,244,161,25,36,149,17,107,159,60,230,19,63,216>>
TF256Inc == <<224,208,145,255,14,234,143,223,201,129,146,230,46,216,10,213,157,134,93,8,88,141,244,118,101,112,86,181,149,94,151,223>>
TF512ZeroHead == <<177,162,187,198,239,96,37,188,64,235,56,34,22,31,54,227>>
TF512IncHead == <<227,4,67,150,38,212,90,44,180,1,202,216,214,54,36,154>>
TF1024ZeroHead == <<240,92,61,10,61,5,179,4,247,133,221,199,209,224,54,1>>
TF1024IncHead == <<166,101,77,219,215,60,195,176,93,215,119,16,90,168,73,188>>
\* Skein 1.3 reference digests of the one-byte message FF (skein_golden_kat_short.txt)
S256 == <<11,152,220,209,152,234,14,80,167,162,68,196,68,226,92,35,218,48,193,15,201,161,242,112,166,99,127,31,52,230,126,210>>
S512Head == <<113,183,188,230,254,100,82,34,123,156,237,96,20,36,158,91>>
S1024Head == <<230,44,5,128,46,160,21,36,7,205,216,120,127,218,158,53>>
Checks == << EncB(Seq0(32), Z64, Z64, Seq0(32)) = TF256Zero,
             EncB(KeyInc(32), TW0, TW1, PtDec(32)) = TF256Inc,
             SubSeq(EncB(Seq0(64), Z64, Z64, Seq0(64)), 1, 16) = TF512ZeroHead,
             SubSeq(EncB(KeyInc(64), TW0, TW1, PtDec(64)), 1, 16) = TF512IncHead,
             SubSeq(EncB(Seq0(128), Z64, Z64, Seq0(128)), 1, 16) = TF1024ZeroHead,
             SubSeq(EncB(KeyInc(128), TW0, TW1, PtDec(128)), 1, 16) = TF1024IncHead,
             DecB(KeyInc(32), TW0, TW1, TF256Inc) = PtDec(32),
             DecB(KeyInc(128), TW0, TW1, EncB(KeyInc(128), TW0, TW1, PtDec(128))) = PtDec(128),
             SkeinHash(<<255>>, 32, 32) = S256,
             SubSeq(SkeinHash(<<255>>, 64, 64), 1, 16) = S512Head,
             SubSeq(SkeinHash(<<255>>, 128, 128), 1, 16) = S1024Head >>
VARIABLES step, res
Init == step = 0 /\ res = <<>>
Next == step = 0 /\ step' = 1 /\ res' = Checks
AllOk == step = 1 => \A i \in 1..Len(res) : res[i]
=============================================================================
