---------------------------- MODULE HashBuf ----------------------------
(* The block-buffered hashers of hashes/{blake,groestl,jh,skein}/src/lib.rs with ABSTRACT compression, one instance:
   `Update(n)` feeds n bytes through block_buffer's input_block (eager flush: BLAKE, Groestl, JH) or input_lazy (Skein),
   the per-block closure updates the hash-specific counter, and FinalBlocks is the finalisation as implemented
   (which blocks get compressed, with which counter value).  Bytes are identified by their position in the message, so
   "the processed blocks and the buffer" can be compared with what the specification of each hash says for a message of
   that length (IdealBlocksProcessed, IdealFinal: written independently of the implementation's case split).
   Coherent      - the state after ANY partition into update calls is a function of the message length alone (C08)
   CounterExact  - the counter equals the true amount absorbed, for every length, across word wraps (C17; CW = scaled 2^32/2^64)
   FinalRight    - one vs two final blocks, zero counter for a padding-only block, block count incl. padding (C04, C06, C07, C05) *)
EXTENDS Integers, Sequences, TLC
CONSTANTS B,        \* block size in bytes (scaled)
          FOOT,     \* bytes the final length field + marker need (blake: 1+2w ; groestl/jh: 8)
          KIND,     \* "blake" | "groestl" | "jh" | "skein"
          CW,       \* values per counter word (scaled 2^32 / 2^64)
          MAXLEN, MAXPIECE
VARIABLES buf,      \* bytes in the block buffer (sequence of message indices)
          ctr,      \* the hash-specific counter as implemented: blake <<lo,hi>> bits/8 ; groestl blocks ; jh bytes ; skein bytes (t0)
          blocks,   \* processed blocks: sequence of <<content, counter-tag>>
          msg,      \* ghost: message length so far (content = 1..msg)
          first     \* skein: FIRST flag still set
vars == <<buf, ctr, blocks, msg, first>>
Bytes(a, b) == [i \in 1..(b - a) |-> a + i]      \* message bytes a+1..b  (identified by index)
Lazy == KIND = "skein"

\* counter update performed in the per-block closure
Tag(c, n) == CASE KIND = "blake"   -> LET lo == c[1] + n IN <<lo % CW, (c[2] + lo \div CW) % CW>>
               [] KIND = "groestl" -> c + 1
               [] KIND = "jh"      -> c               \* jh counts in update(), not per block
               [] KIND = "skein"   -> c + n
Flush(st, blk, n) == LET c == Tag(st.ctr, n)
                     IN [st EXCEPT !.ctr = c,
                                   !.blocks = Append(st.blocks, <<blk, IF KIND \in {"blake", "skein"} THEN c ELSE 0, st.first>>),
                                   !.first = FALSE]
RECURSIVE Feed(_, _)
\* input_block (eager) / input_lazy : st.buf plus data d
Feed(st, d) == LET room == B - Len(st.buf)
               IN IF (IF Lazy THEN Len(d) <= room ELSE Len(d) < room)
                  THEN [st EXCEPT !.buf = st.buf \o d]
                  ELSE LET blk == st.buf \o SubSeq(d, 1, room)
                       IN Feed([Flush(st, blk, B) EXCEPT !.buf = <<>>], SubSeq(d, room + 1, Len(d)))
St == [buf |-> buf, ctr |-> ctr, blocks |-> blocks, first |-> first]
Update(n) == /\ msg + n <= MAXLEN
             /\ LET s0 == IF KIND = "jh" THEN [St EXCEPT !.ctr = ctr + n] ELSE St
                    s == Feed(s0, Bytes(msg, msg + n))
                IN buf' = s.buf /\ ctr' = s.ctr /\ blocks' = s.blocks /\ first' = s.first
             /\ msg' = msg + n
Init == buf = <<>> /\ ctr = (IF KIND = "blake" THEN <<0, 0>> ELSE 0) /\ blocks = <<>> /\ msg = 0 /\ first = TRUE
Next == \E n \in 0..MAXPIECE : Update(n)
Spec == Init /\ [][Next]_vars

\* ---- finalisation as implemented (what blocks get compressed, with which counter) ----------
PAD == "p"   \* padding byte marker
Zeros(k) == [i \in 1..k |-> 0]
FinalBlocks ==
  CASE KIND = "blake" ->
         LET pos == Len(buf)
             t == Tag(ctr, pos)
             extra == pos + FOOT > B
             b1 == IF extra THEN <<<<buf \o <<PAD>> \o Zeros(B - pos - 1), t>>>> ELSE <<>>
             pos2 == IF extra THEN 0 ELSE pos
             t2 == IF pos2 = 0 THEN <<0, 0>> ELSE t
             body == IF extra THEN Zeros(B - FOOT) ELSE
                       (IF pos + FOOT = B THEN buf ELSE buf \o <<PAD>> \o Zeros(B - FOOT - pos - 1))
         IN b1 \o <<<<body \o <<"len", t>>, t2>>>>
    [] KIND = "groestl" ->
         LET pos == Len(buf)
             cnt == ctr + 1 + (IF B - pos <= FOOT THEN 1 ELSE 0)
             two == B - (pos + 1) < FOOT
         IN IF two THEN <<<<buf \o <<PAD>> \o Zeros(B - pos - 1), 0>>, <<Zeros(B - FOOT) \o <<"len", cnt>>, 0>>>>
            ELSE <<<<buf \o <<PAD>> \o Zeros(B - pos - 1 - FOOT) \o <<"len", cnt>>, 0>>>>
    [] KIND = "jh" ->
         LET pos == Len(buf)
         IN IF pos = 0 THEN <<<<<<PAD>> \o Zeros(B - 1 - FOOT) \o <<"len", ctr * 8>>, 0>>>>
            ELSE <<<<buf \o <<PAD>> \o Zeros(B - pos - 1), 0>>, <<Zeros(B - FOOT) \o <<"len", ctr * 8>>, 0>>>>
    [] KIND = "skein" ->
         <<<<buf \o Zeros(B - Len(buf)), ctr + Len(buf), first, "final">>>>

\* ---- the property side: what the specification of each hash says for a message of length msg
IdealBlocksProcessed ==     \* full blocks that must have been compressed before finalisation, with their tags
  LET nfull == IF Lazy THEN (IF msg = 0 THEN 0 ELSE (msg - 1) \div B) ELSE msg \div B
  IN [i \in 1..nfull |-> <<Bytes((i - 1) * B, i * B),
                          CASE KIND = "blake" -> <<(i * B) % CW, ((i * B) \div CW) % CW>>
                            [] KIND = "skein" -> i * B
                            [] OTHER -> 0,
                          i = 1>>]
Coherent == /\ blocks = IdealBlocksProcessed
            /\ buf = Bytes(Len(blocks) * B, msg)
CounterExact == CASE KIND = "blake" -> ctr = <<(Len(blocks) * B) % CW, ((Len(blocks) * B) \div CW) % CW>>
                  [] KIND = "groestl" -> ctr = Len(blocks)
                  [] KIND = "jh" -> ctr = msg
                  [] KIND = "skein" -> ctr = Len(blocks) * B
\* spec-level padding rule, written independently of the implementation's case split
IdealFinal ==
  CASE KIND = "blake" ->
         LET r == msg % B
             bits == <<msg % CW, (msg \div CW) % CW>>
             tail == Bytes(msg - r, msg)
             one == r + FOOT <= B
         IN IF one THEN <<<<(IF r + FOOT = B THEN tail ELSE tail \o <<PAD>> \o Zeros(B - FOOT - r - 1)) \o <<"len", bits>>,
                            IF r = 0 THEN <<0, 0>> ELSE bits>>>>
            ELSE <<<<tail \o <<PAD>> \o Zeros(B - r - 1), bits>>, <<Zeros(B - FOOT) \o <<"len", bits>>, <<0, 0>>>>>>
    [] KIND = "groestl" ->
         LET r == msg % B
             tail == Bytes(msg - r, msg)
             padded == r + 1 + FOOT          \* bytes needed in the last block(s)
             nb == msg \div B + (IF padded <= B THEN 1 ELSE 2)
         IN IF padded <= B THEN <<<<tail \o <<PAD>> \o Zeros(B - padded) \o <<"len", nb>>, 0>>>>
            ELSE <<<<tail \o <<PAD>> \o Zeros(B - r - 1), 0>>, <<Zeros(B - FOOT) \o <<"len", nb>>, 0>>>>
    [] KIND = "jh" ->
         LET r == msg % B
             tail == Bytes(msg - r, msg)
         IN IF r = 0 THEN <<<<<<PAD>> \o Zeros(B - 1 - FOOT) \o <<"len", msg * 8>>, 0>>>>
            ELSE <<<<tail \o <<PAD>> \o Zeros(B - r - 1), 0>>, <<Zeros(B - FOOT) \o <<"len", msg * 8>>, 0>>>>
    [] KIND = "skein" ->
         LET nfull == IF msg = 0 THEN 0 ELSE (msg - 1) \div B
             tail == Bytes(nfull * B, msg)
         IN <<<<tail \o Zeros(B - Len(tail)), msg, nfull = 0, "final">>>>
FinalRight == FinalBlocks = IdealFinal
=============================================================================
