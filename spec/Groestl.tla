------------------------------- MODULE Groestl -------------------------------
(* Groestl (SHA-3 finalist, round-3 "final" version) on the byte matrix, from the Groestl specification:
   AddRoundConstant, SubBytes (AES S-box derived here from GF(2^8) inversion and the affine map), ShiftBytes (P and Q, both
   state sizes), MixBytes = circ(02,02,03,04,05,03,05,07) over GF(2^8), compression P(h+m)+Q(m)+h, output transformation,
   padding with the 64-bit block count.  Nothing is taken from the implementation's bit-sliced AES-NI form. *)
EXTENDS Limbs, TLC
X(a, b) == a ^^ b
X3(a, b, c) == (a ^^ b) ^^ c
X8(a, b, c, d, e, f, g, h) == (((a ^^ b) ^^ (c ^^ d)) ^^ ((e ^^ f) ^^ (g ^^ h)))
\* GF(2^8), AES polynomial x^8+x^4+x^3+x+1
XT(a) == LET s == (a * 2) % 256 IN IF a >= 128 THEN s ^^ 27 ELSE s
RECURSIVE GM(_, _)
GM(a, b) == IF b = 0 THEN 0 ELSE (IF b % 2 = 1 THEN a ELSE 0) ^^ GM(XT(a), b \div 2)
RECURSIVE GPow(_, _)
GPow(a, e) == IF e = 0 THEN 1 ELSE IF e % 2 = 1 THEN GM(a, GPow(a, e - 1)) ELSE LET h == GPow(a, e \div 2) IN GM(h, h)
Rotl8(x, k) == ((x * 2^k) % 256) + (x \div 2^(8 - k))
SboxOf(x) == LET s == IF x = 0 THEN 0 ELSE GPow(x, 254)
             IN X3(X3(s, Rotl8(s, 1), Rotl8(s, 2)), X(Rotl8(s, 3), Rotl8(s, 4)), 99)
SBOX == Force([k \in 1..256 |-> SboxOf(k - 1)])
M2 == Force([k \in 1..256 |-> XT(k - 1)])
Mul(c, x) == CASE c = 2 -> M2[x + 1]
               [] c = 3 -> M2[x + 1] ^^ x
               [] c = 4 -> M2[M2[x + 1] + 1]
               [] c = 5 -> M2[M2[x + 1] + 1] ^^ x
               [] c = 7 -> X3(M2[M2[x + 1] + 1], M2[x + 1], x)
CIRC == <<2, 2, 3, 4, 5, 3, 5, 7>>
\* state = tuple of 8*NC bytes in input order: byte index k (0-based) sits at row k%8, column k\div8
ShiftP(nc) == IF nc = 8 THEN <<0,1,2,3,4,5,6,7>> ELSE <<0,1,2,3,4,5,6,11>>
ShiftQ(nc) == IF nc = 8 THEN <<1,3,5,7,0,2,4,6>> ELSE <<1,3,5,11,0,2,4,6>>
At(s, r, c) == s[8 * c + r + 1]
RoundPQ(s, nc, r, isP) ==
  LET arc == Force([k \in 1..(8 * nc) |->
                LET row == (k - 1) % 8  col == (k - 1) \div 8 IN
                IF isP THEN (IF row = 0 THEN s[k] ^^ ((col * 16) ^^ r) ELSE s[k])
                ELSE (IF row = 7 THEN X3(s[k], 255, (col * 16) ^^ r) ELSE s[k] ^^ 255)])
      sub == Force([k \in 1..(8 * nc) |-> SBOX[arc[k] + 1]])
      sh  == IF isP THEN ShiftP(nc) ELSE ShiftQ(nc)
      shf == Force([k \in 1..(8 * nc) |->
                LET row == (k - 1) % 8  col == (k - 1) \div 8 IN At(sub, row, (col + sh[row + 1]) % nc)])
  IN Force([k \in 1..(8 * nc) |->
        LET row == (k - 1) % 8  col == (k - 1) \div 8 IN
        X8(Mul(CIRC[((0 - row) % 8) + 1], At(shf, 0, col)), Mul(CIRC[((1 - row) % 8) + 1], At(shf, 1, col)),
           Mul(CIRC[((2 - row) % 8) + 1], At(shf, 2, col)), Mul(CIRC[((3 - row) % 8) + 1], At(shf, 3, col)),
           Mul(CIRC[((4 - row) % 8) + 1], At(shf, 4, col)), Mul(CIRC[((5 - row) % 8) + 1], At(shf, 5, col)),
           Mul(CIRC[((6 - row) % 8) + 1], At(shf, 6, col)), Mul(CIRC[((7 - row) % 8) + 1], At(shf, 7, col)))])
NRounds(nc) == IF nc = 8 THEN 10 ELSE 14
RECURSIVE Perm(_, _, _, _)
Perm(s, nc, r, isP) == IF r = NRounds(nc) THEN s ELSE Perm(RoundPQ(s, nc, r, isP), nc, r + 1, isP)
VXor(a, b) == Force([k \in 1..Len(a) |-> a[k] ^^ b[k]])
Compress(h, m, nc) == VXor(VXor(Perm(VXor(h, m), nc, 0, TRUE), Perm(m, nc, 0, FALSE)), h)
Omega(h, nc, outbytes) == LET x == VXor(Perm(h, nc, 0, TRUE), h) IN SubSeq(x, 8 * nc - outbytes + 1, 8 * nc)
IV(nc, bits) == Force([k \in 1..(8 * nc) |-> IF k = 8 * nc - 1 THEN bits \div 256 ELSE IF k = 8 * nc THEN bits % 256 ELSE 0])
\* digest of a message of which `blocks` blocks (4-limb number) were already compressed into h; rest = remaining bytes.
\* Padding: 0x80, zeros, 64-bit big-endian count of all blocks including the padding block(s).
GroestlFrom(h, blocks, rest, nc, outbytes) ==
  LET B == 8 * nc
      L == Len(rest)
      nfull == L \div B
      r == L % B
      tail == SubSeq(rest, nfull * B + 1, L)
      npad == IF r + 1 + 8 <= B THEN 1 ELSE 2
      total == WAdd(blocks, WOfInt(nfull + npad, 4))
      lenfield == BEOfW(total)                              \* 8 bytes
      finals == IF npad = 1 THEN << tail \o <<128>> \o Zeros(B - r - 9) \o lenfield >>
                ELSE << tail \o <<128>> \o Zeros(B - r - 1), Zeros(B - 8) \o lenfield >>
      RECURSIVE Full(_, _)
      Full(hh, i) == IF i > nfull THEN hh ELSE Full(Compress(hh, SubSeq(rest, (i - 1) * B + 1, i * B), nc), i + 1)
      h1 == Full(h, 1)
      h2 == Compress(h1, finals[1], nc)
      h3 == IF npad = 2 THEN Compress(h2, finals[2], nc) ELSE h2
  IN Omega(h3, nc, outbytes)
NC(alg) == IF alg \in {"Groestl224", "Groestl256"} THEN 8 ELSE 16
OutBytes(alg) == CASE alg = "Groestl224" -> 28 [] alg = "Groestl256" -> 32 [] alg = "Groestl384" -> 48 [] alg = "Groestl512" -> 64
GroestlHash(alg, msg) == GroestlFrom(IV(NC(alg), 8 * OutBytes(alg)), WZero(4), msg, NC(alg), OutBytes(alg))
=============================================================================
