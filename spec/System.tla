------------------------------- MODULE System -------------------------------
(* Composition of independent instances (C18, second half): NC stream ciphers and NH hashers live at the same time and one
   thread steps them in any order.  Per-instance state is abstract (cipher: absolute position; hasher: message length, or -1 when
   the slot is empty); the point of the model is the SCHEDULE: TLC (-simulate) draws behaviours of this composition and every
   behaviour is replayed on real instances of mixed types, whose observations are then validated by the product monitor
   TraceSystem.tla.  Independent: a step on one instance leaves every other instance's state unchanged. *)
EXTENDS Integers, Sequences, Json, TLC
CONSTANTS NC, NH, DEPTH
VARIABLES cpos, hlen, hist, depth
vars == <<cpos, hlen, hist, depth>>
Ciphers == 1..NC
Hashers == 1..NH
Lens == {0, 1, 17, 63, 64, 65, 130, 256, 300}
Seeks == {0, 1, 63, 64, 65, 200, 1000}
Pieces == {0, 1, 31, 63, 64, 65, 129, 200}
\* The harness binds hashers 1 and 2 to one hash type T, 3 and 4 to types that share some but not all of T's parameters (the other
\* output size of the same compression function; for Skein: same output size with another state size, same state size with another
\* output size), and ciphers 1 and 3 to the same key and nonce with different round counts: whatever is shared between such instances
\* must not be a channel between them.
Step(e) == depth < DEPTH /\ depth' = depth + 1 /\ hist' = Append(hist, e)
CApply(i, n) == Step(<<"capply", i, n>>) /\ cpos' = [cpos EXCEPT ![i] = cpos[i] + n] /\ UNCHANGED hlen
CSeek(i, p) == Step(<<"cseek", i, p>>) /\ cpos' = [cpos EXCEPT ![i] = p] /\ UNCHANGED hlen
CPos(i) == Step(<<"cpos", i, 0>>) /\ UNCHANGED <<cpos, hlen>>
HUpd(j, n) == hlen[j] >= 0 /\ Step(<<"hupd", j, n>>) /\ hlen' = [hlen EXCEPT ![j] = hlen[j] + n] /\ UNCHANGED cpos
HClone(j, k) == hlen[j] >= 0 /\ k # j /\ Step(<<"hclone", j, k>>) /\ hlen' = [hlen EXCEPT ![k] = hlen[j]] /\ UNCHANGED cpos
HReset(j) == hlen[j] >= 0 /\ Step(<<"hreset", j, 0>>) /\ hlen' = [hlen EXCEPT ![j] = 0] /\ UNCHANGED cpos
HFinReset(j) == hlen[j] >= 0 /\ Step(<<"hfinreset", j, 0>>) /\ hlen' = [hlen EXCEPT ![j] = 0] /\ UNCHANGED cpos
Init == /\ cpos = [i \in Ciphers |-> 0]
        /\ hlen = [j \in Hashers |-> IF j <= 4 THEN 0 ELSE -1]   \* 1, 2: one type; 3, 4: its relatives (see below); 5: free slot
        /\ hist = <<>> /\ depth = 0
Next == \/ \E i \in Ciphers : (\E n \in Lens : CApply(i, n)) \/ (\E p \in Seeks : CSeek(i, p)) \/ CPos(i)
        \/ \E j \in Hashers : (\E n \in Pieces : HUpd(j, n)) \/ (\E k \in Hashers : HClone(j, k)) \/ HReset(j) \/ HFinReset(j)
Spec == Init /\ [][Next]_vars
\* a step names exactly one instance; nobody else changes
IndependentA == LET e == hist'[Len(hist')] IN
                /\ \A i \in Ciphers : (e[1] \in {"capply", "cseek", "cpos"} /\ e[2] = i) \/ cpos'[i] = cpos[i]
                /\ \A j \in Hashers : (e[1] \in {"hupd", "hreset", "hfinreset"} /\ e[2] = j) \/ (e[1] = "hclone" /\ e[3] = j) \/ hlen'[j] = hlen[j]
Independent == [][IndependentA]_vars
\* emit the schedule of every completed behaviour (one JSON line per behaviour)
Emit == depth < DEPTH \/ PrintT(ToJson(hist))
=============================================================================
