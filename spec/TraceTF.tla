------------------------------- MODULE TraceTF -------------------------------
(* Trace validation for C09 / C10: one `tf` event = (key, tweak, x) with y = E(x), x2 = D(y), z = D(x), x3 = E(z)
   recorded from the real cipher.  C09: y = Encrypt(x).  C10: x2 = x, z = Decrypt(x) (the independently written inverse), x3 = x. *)
EXTENDS Threefish, Json, IOUtils, TLC
Rec == ndJsonDeserialize(IOEnv.TRACE)
N == Len(Rec)
VARIABLES l, phase, bad
vars == <<l, phase, bad>>
CheckEnc(e) == e.res = "ok" /\ e.y = BytesOf(Encrypt(WordsOf(e.key), e.t0, e.t1, WordsOf(e.x)))
CheckInv(e) == /\ e.res = "ok" /\ e.x2 = e.x /\ e.x3 = e.x
               /\ e.z = BytesOf(Decrypt(WordsOf(e.key), e.t0, e.t1, WordsOf(e.x)))
\* "tfb": several blocks through one encrypt_blocks / decrypt_blocks call; every block as if it were alone
Blk(bs, i, n) == SubSeq(bs, (i - 1) * n + 1, i * n)
CheckBlocks(e) == LET n == e.size
                      m == Len(e.xs) \div n
                      k == WordsOf(e.key)
                  IN /\ e.res = "ok" /\ Len(e.ys) = Len(e.xs) /\ Len(e.zs) = Len(e.xs)
                     /\ \A i \in 1..m :
                          IF IOEnv.MODE = "enc" THEN Blk(e.ys, i, n) = BytesOf(Encrypt(k, e.t0, e.t1, WordsOf(Blk(e.xs, i, n))))
                          ELSE Blk(e.zs, i, n) = BytesOf(Decrypt(k, e.t0, e.t1, WordsOf(Blk(e.xs, i, n))))
Check(e) == IF e.ev = "tfb" THEN CheckBlocks(e) ELSE IF IOEnv.MODE = "enc" THEN CheckEnc(e) ELSE CheckInv(e)
Init == l \in 1..N /\ phase = 0 /\ bad = FALSE
Next == /\ phase = 0 /\ phase' = 1 /\ l' = l
        /\ bad' = IF Check(Rec[l]) THEN FALSE ELSE PrintT(<<"REJECT", l>>)
Spec == Init /\ [][Next]_vars
=============================================================================
