CONSTANTS
  BLOCK = 64
  BUFBLOCKS = 4
  DEPTH = 3
  TIER = "quick"
  SEEDV = 1
  FIXED = TRUE
  N0 <- L0
  NI <- LI
  NAdd <- WAdd
  NSub <- WSub
  NLt <- WLt
  NDivB <- LDivB
  NMulB <- LMulB
  NModB <- LModB
  NLo <- LLo
  NHi <- LHi
  NJoin <- LJoin
  NM64 <- LM64
  NW32 <- LW32
  NW64 <- LW64
INIT Init
NEXT Next
VIEW View
CHECK_DEADLOCK FALSE
INVARIANTS NonceIntact PosCoherent BufferedBlockRight LenCoherent
PROPERTIES NoPanic OutputAtAbsolutePos SeekTotal CurrentPosRight FailedApplyKeepsPos
