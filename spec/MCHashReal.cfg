CONSTANTS
  B = 64
  LAZY = FALSE
  DEPTH = 4
  TIER = "quick"
INIT Init
NEXT Next
VIEW View
CHECK_DEADLOCK FALSE
