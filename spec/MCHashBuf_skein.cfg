CONSTANTS
  B = 6
  FOOT = 0
  KIND = "skein"
  CW = 8
  MAXLEN = 20
  MAXPIECE = 14
INIT Init
NEXT Next
CHECK_DEADLOCK FALSE
INVARIANTS Coherent CounterExact FinalRight
