------------------------------ MODULE TraceSimd ------------------------------
(* Trace validation for C12 / C13: one `op` event per vector operation executed by the real backend;
   out must equal SimdOps!Sem, and no operation may panic.  `mach` events (which Machine a dispatch
   macro selected) are validated against Dispatch.tla by TraceDispatch; here they are accepted. *)
EXTENDS SimdOps, Json, IOUtils, TLC
Rec == ndJsonDeserialize(IOEnv.TRACE)
N == Len(Rec)
VARIABLES l, phase, bad
vars == <<l, phase, bad>>
Check(e) == IF e.ev = "mach" THEN TRUE ELSE e.res = "ok" /\ e.out = Sem(e.ty, e.op, e.a, e.b, e.i)
Init == l \in 1..N /\ phase = 0 /\ bad = FALSE
Next == /\ phase = 0 /\ phase' = 1 /\ l' = l
        /\ bad' = IF Check(Rec[l]) THEN FALSE ELSE PrintT(<<"REJECT", l>>)
Spec == Init /\ [][Next]_vars
=============================================================================
