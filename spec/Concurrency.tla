---------------------------- MODULE Concurrency ----------------------------
(* Concurrent first use of lazily initialised dispatch state (lazy_static cells in groestl-aesni,
   racy-but-idempotent CPU-feature cache in std_detect), N threads x K calls. Results must not depend on schedule. *)
EXTENDS Integers, Sequences, FiniteSets, TLC
CONSTANTS Threads, Cells, K, Best     \* Best = the implementation the host's features select
VARIABLES cell,      \* cell[c] = [st |-> "uninit"|"running"|"done", by |-> thread or 0, val |-> impl or "none"]
          cache,     \* feature cache: "unset" | "set"   (benign race: several threads may compute and store the same value)
          pc, left, cur, used, results
vars == <<cell, cache, pc, left, cur, used, results>>
Init == /\ cell = [c \in Cells |-> [st |-> "uninit", by |-> 0, val |-> "none"]]
        /\ cache = "unset"
        /\ pc = [t \in Threads |-> "idle"] /\ left = [t \in Threads |-> K]
        /\ cur = [t \in Threads |-> CHOOSE c \in Cells : TRUE] /\ used = [t \in Threads |-> "none"]
        /\ results = {}
Call(t, c) == pc[t] = "idle" /\ left[t] > 0 /\ pc' = [pc EXCEPT ![t] = "deref"] /\ cur' = [cur EXCEPT ![t] = c]
              /\ UNCHANGED <<cell, cache, left, used, results>>
\* Once::call_once fast path / slow path
Deref(t) == /\ pc[t] = "deref"
            /\ LET c == cur[t] IN
               CASE cell[c].st = "done"   -> pc' = [pc EXCEPT ![t] = "invoke"] /\ UNCHANGED cell
                 [] cell[c].st = "uninit" -> pc' = [pc EXCEPT ![t] = "detect"] /\ cell' = [cell EXCEPT ![c] = [st |-> "running", by |-> t, val |-> "none"]]
                 [] cell[c].st = "running" -> pc' = [pc EXCEPT ![t] = "wait"] /\ UNCHANGED cell
            /\ UNCHANGED <<cache, left, cur, used, results>>
\* initialiser runs is_x86_feature_detected!: reads the cache, may (re)compute it; value is always Best
Detect(t) == /\ pc[t] = "detect" /\ cache' = "set" /\ pc' = [pc EXCEPT ![t] = "finish"]
             /\ UNCHANGED <<cell, left, cur, used, results>>
Finish(t) == /\ pc[t] = "finish"
             /\ cell' = [cell EXCEPT ![cur[t]] = [st |-> "done", by |-> t, val |-> Best]]
             /\ pc' = [pc EXCEPT ![t] = "invoke"] /\ UNCHANGED <<cache, left, cur, used, results>>
Wait(t) == /\ pc[t] = "wait" /\ cell[cur[t]].st = "done" /\ pc' = [pc EXCEPT ![t] = "invoke"]
           /\ UNCHANGED <<cell, cache, left, cur, used, results>>
Invoke(t) == /\ pc[t] = "invoke" /\ used' = [used EXCEPT ![t] = cell[cur[t]].val]
             /\ pc' = [pc EXCEPT ![t] = "ret"] /\ UNCHANGED <<cell, cache, left, cur, results>>
Return(t) == /\ pc[t] = "ret" /\ results' = results \cup {<<t, cur[t], used[t]>>}
             /\ left' = [left EXCEPT ![t] = left[t] - 1] /\ pc' = [pc EXCEPT ![t] = "idle"]
             /\ UNCHANGED <<cell, cache, cur, used>>
Next == \E t \in Threads : (\E c \in Cells : Call(t, c)) \/ Deref(t) \/ Detect(t) \/ Finish(t) \/ Wait(t) \/ Invoke(t) \/ Return(t)
Spec == Init /\ [][Next]_vars /\ WF_vars(Next)
InvokeSeesInitialised == \A t \in Threads : pc[t] = "ret" => used[t] = Best
OnceExclusive == \A c \in Cells : Cardinality({t \in Threads : pc[t] \in {"detect", "finish"} /\ cur[t] = c}) <= 1
ResultsScheduleFree == \A r \in results : r[3] = Best
Done == \A t \in Threads : pc[t] = "idle" /\ left[t] = 0
NoStuck == (~ENABLED Next) => Done
Terminates == <>Done
=============================================================================
