------------------------------ MODULE TraceC01 ------------------------------
(* Trace validation for C01: every recorded `ks` event (fresh cipher, seek to pos, one
   apply of n bytes) must satisfy  after = before XOR Keystream(variant, key, nonce, pos, n),
   with the guard bytes around the slice untouched and no error / panic.
   Events are independent, so every event is its own initial state (parallel over workers);
   the monitor is total: a mismatch sets `bad` and prints a REJECT line. *)
EXTENDS ChaChaFn, Json, IOUtils, TLC
Rec == ndJsonDeserialize(IOEnv.TRACE)
N == Len(Rec)
VARIABLES l, phase, bad
vars == <<l, phase, bad>>
InRange(e) == WLe(WAdd(e.pos, WOfInt(e.n, 5)), WShl(TotalBlocks(e.variant), 6))
\* "bigcall": summary of one apply call over more than 2^32 bytes (its keystream windows are ordinary ks events): the position
\* afterwards is start + len, and applying the same stream again in pieces restored the buffer
CheckBig(e) == e.res = "ok" /\ e.rezero /\ e.pos_after = WAdd(e.start, e.len)
Check(e) == IF e.ev = "bigcall" THEN CheckBig(e) ELSE IF InRange(e)
            THEN /\ e.res = "ok" /\ e.guard /\ Len(e.after) = e.n
                 /\ e.after = BXor(e.before, Keystream(e.variant, e.key, e.nonce, e.pos, e.n))
            ELSE e.res = "apply-err" /\ e.guard /\ e.after = e.before
Init == l \in 1..N /\ phase = 0 /\ bad = FALSE
Next == /\ phase = 0 /\ phase' = 1 /\ l' = l
        /\ bad' = IF Check(Rec[l]) THEN FALSE ELSE PrintT(<<"REJECT", l>>)
Spec == Init /\ [][Next]_vars
=============================================================================
