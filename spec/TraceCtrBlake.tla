---------------------------- MODULE TraceCtrBlake ----------------------------
(* Trace validation for C17 (Blake): digests of messages whose length counter starts at a fast-forwarded value (event "ff":
   hook H2 set the counter to `base` on a new instance, then real data crossed the word boundary through the real increment
   code), or of really streamed messages with a checkpoint before the boundary (event "stream": chaining value, counter and
   buffered bytes read through H2; the counter must equal the amount actually fed).  The digest must equal the specification's
   value for (chaining value, amount absorbed, remaining bytes). *)
EXTENDS Blake, Json, IOUtils, TLC
Rec == ndJsonDeserialize(IOEnv.TRACE)
N == Len(Rec)
VARIABLES l, phase, bad
vars == <<l, phase, bad>>
WResizeL(a, n) == [i \in 1..n |-> a[i]]
H(e) == IF e.ev = "ff" THEN IVOf(e.alg) ELSE LET nl == NL(e.alg) IN Force([i \in 1..8 |-> WOfBE(e.chain, 2 * nl * (i - 1), nl)])
CounterOk(e) == e.ev = "ff" \/ e.base = WResize(WShl(e.fed, 3), Len(e.base))
Want(e) == BlakeFrom(H(e), e.base, e.rest, NL(e.alg), IsFull(e.alg), OutBytes(e.alg))
RefOk(e) == ("out_ref" \in DOMAIN e) => (e.out = e.out_ref /\ e.chain = e.chain_ref /\ e.base = e.base_ref /\ e.pos = e.pos_ref)   \* one-call vs chunk-fed instance
Check(e) == e.res = "ok" /\ CounterOk(e) /\ RefOk(e) /\ e.out = Want(e)
Init == l \in 1..N /\ phase = 0 /\ bad = FALSE
Next == /\ phase = 0 /\ phase' = 1 /\ l' = l
        /\ bad' = IF Check(Rec[l]) THEN FALSE ELSE PrintT(<<"REJECT", l>>)
Spec == Init /\ [][Next]_vars
=============================================================================
