------------------------------ MODULE StreamIdeal ------------------------------
(* The IDEAL stream-cipher specification (C02 / C11: the property as stated) as pure step functions over a state record
   [variant, ekey, nonce, pos]; used by the trace monitors TraceStream (one cipher per episode) and TraceSystem (several
   interleaved instances).
     seek(ty, v)   : Ok iff v is convertible to u64 and v <= TotalBytes; then pos' = v; else Err, no effect
     apply(n)      : Ok iff pos + n <= TotalBytes; after = before XOR keystream[pos, pos+n); pos' = pos + n
                     else Err, data unchanged, pos unchanged
     pos(ty)       : Ok(pos) iff pos fits the type, else overflow error                                          *)
EXTENDS ChaChaFn
TotalBytes(v) == WShl(TotalBlocks(v), 6)
U64MAX8 == <<65535, 65535, 65535, 65535, 0, 0, 0, 0>>
TypeMax(ty) == CASE ty = "u8" -> <<255, 0, 0, 0, 0, 0, 0, 0>>
                 [] ty = "u16" -> <<65535, 0, 0, 0, 0, 0, 0, 0>>
                 [] ty = "u32" -> <<65535, 65535, 0, 0, 0, 0, 0, 0>>
                 [] ty = "i32" -> <<65535, 32767, 0, 0, 0, 0, 0, 0>>
                 [] ty \in {"u64", "usize"} -> U64MAX8
                 [] ty = "u128" -> <<65535, 65535, 65535, 65535, 65535, 65535, 65535, 65535>>
InitSt(e) == [variant |-> e.variant, ekey |-> EffKey(e.variant, e.key, e.nonce), nonce |-> e.nonce, pos |-> <<0, 0, 0, 0, 0>>]
\* returns <<accepted, st'>>
StepSeek(s, e) == LET convertible == ~e.neg /\ WLe(e.val, U64MAX8)
                      ok == convertible /\ WLe(e.val, WResize(TotalBytes(s.variant), 8))
                  IN IF ok THEN <<e.res = "ok", [s EXCEPT !.pos = WResize(e.val, 5)]>>
                     ELSE <<e.res = "err", s>>
StepApply(s, e) == LET endp == WAdd(s.pos, WOfInt(e.n, 5))
                       ok == WLe(endp, TotalBytes(s.variant))
                   IN IF ok THEN << /\ e.res = "ok" /\ e.guard /\ Len(e.after) = e.n
                                    /\ e.after = BXor(e.before, KSFrom(s.variant, s.ekey, s.nonce, s.pos, e.n)),
                                    [s EXCEPT !.pos = endp] >>
                      ELSE << e.res = "err" /\ e.guard /\ e.after = e.before, s >>
StepPos(s, e) == LET p8 == WResize(s.pos, 8)
                 IN IF WLe(p8, TypeMax(e.ty)) THEN <<e.res = "ok" /\ e.val = p8, s>> ELSE <<e.res = "ovf", s>>
\* the harness put the instance, through its public fields, into the state the model has at position e.pos
StepTeleport(s, e) == <<e.res = "ok", [s EXCEPT !.pos = e.pos]>>
Step(s, e) == CASE e.ev = "seek" -> StepSeek(s, e)
                [] e.ev = "teleport" -> StepTeleport(s, e)
                [] e.ev = "apply" -> StepApply(s, e)
                [] e.ev = "pos" -> StepPos(s, e)
=============================================================================
