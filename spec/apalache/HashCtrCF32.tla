------------------------------ MODULE HashCtrCF32 ------------------------------
(* The two-word bit counter of the BLAKE hashers (hashes/blake/src/lib.rs, increase_count) at the REAL word size
   W = 2^32 and block size 512 bits, for Apalache: t.0 takes an overflowing add of the bits absorbed by one block (update) or
   by the buffered tail (finalize), a carry does a CHECKED t.1 += 1.  Inductive invariant: (t0, t1) are words and
   t0 + W * t1 is the true number of bits absorbed, for EVERY number of blocks up to the format limit of 2^(2*32) - 1 bits;
   in particular the checked increment of t.1 can never overflow inside the limit (no debug-build panic).  HashBuf.tla states
   the same step at a scaled word size (CW) with the buffer around it and is checked exhaustively by TLC. *)
EXTENDS Integers
W == 4294967296
BB == 512
Limit == W * W
VARIABLES
  \* @type: Int;
  t0,
  \* @type: Int;
  t1,
  \* @type: Int;
  total,
  \* @type: Bool;
  panicked
Init == t0 = 0 /\ t1 = 0 /\ total = 0 /\ panicked = FALSE
\* increase_count(t, bits / 8)
Step == \E bits \in Int :
          /\ bits >= 0 /\ bits <= BB
          /\ total + bits < Limit
          /\ LET s == t0 + bits
                 carry == s >= W
             IN /\ t0' = (IF carry THEN s - W ELSE s)
                /\ t1' = (IF carry THEN t1 + 1 ELSE t1)
                /\ panicked' = (panicked \/ (carry /\ t1 + 1 >= W))
          /\ total' = total + bits
Next == Step
IndInv == /\ t0 >= 0 /\ t0 < W /\ t1 >= 0 /\ t1 < W
          /\ total >= 0 /\ total < Limit
          /\ t0 + W * t1 = total
          /\ ~panicked
IndInit == /\ t0 \in Int /\ t1 \in Int /\ total \in Int /\ panicked \in BOOLEAN
           /\ IndInv
=============================================================================
