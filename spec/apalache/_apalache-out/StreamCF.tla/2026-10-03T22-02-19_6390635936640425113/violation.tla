---------------------------- MODULE counterexample ----------------------------

EXTENDS StreamCF

(* Constant initialization state *)
ConstInit == TRUE

(* Initial state [_transition(0)] *)
State0 ==
  ctr = 0
    /\ fresh = TRUE
    /\ have = 0
    /\ lastok = FALSE
    /\ lastwant = FALSE
    /\ len = 0
    /\ nonce0 = 0
    /\ pos = 0
    /\ variant = "c64"

(* State1 [_transition(0)] *)
State1 ==
  ctr = 0
    /\ fresh = FALSE
    /\ have = 63
    /\ lastok = TRUE
    /\ lastwant = FALSE
    /\ len = 0
    /\ nonce0 = 0
    /\ pos = 0
    /\ variant = "c64"

(* The following formula holds true in the last state and violates the invariant *)
InvariantViolation ==
  variant = "c64"
    /\ (~(ctr
        = (IF have >= 0 THEN (pos + 63) \div 64 ELSE pos \div 64)
          % 18446744073709551616)
      \/ ~(len
        = (18446744073709551616
          - (IF have >= 0 THEN (pos + 63) \div 64 ELSE pos \div 64))
          % 18446744073709551616)
      \/ ~(fresh = ((IF have >= 0 THEN (pos + 63) \div 64 ELSE pos \div 64) = 0)))

================================================================================
(* Created by Apalache on Sat Oct 03 22:02:51 UTC 2026 *)
(* https://github.com/apalache-mc/apalache *)
