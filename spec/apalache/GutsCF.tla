------------------------------- MODULE GutsCF -------------------------------
(* The counter arithmetic of guts.rs refill / refill4 at the REAL word size (2^32), for Apalache: for EVERY value of the four
   row-3 words, the lane inputs produced by d0123 (64-bit lane add on (d0,d1), +0 on (d2,d3)) and the state left by
   add_pos(lane 0, 4) equal what four consecutive single refills (each a wrapping 64-bit +1 on (d0,d1)) use and leave; the
   carry goes from d0 into d1 and never into d2, d3.  Same formulas as MCGuts.tla (which TLC checks exhaustively at W = 8/16
   with an uninterpreted block function); here W = 2^32 and the words are arbitrary.  A single-state check: Init draws the words,
   the invariant is the law. *)
EXTENDS Integers
W == 4294967296
W64 == W * W
VARIABLES
  \* @type: Int;
  d0,
  \* @type: Int;
  d1,
  \* @type: Int;
  d2,
  \* @type: Int;
  d3
\* wrapping 64-bit add on a (lo, hi) pair of 32-bit words, result as the 64-bit number
Add64N(lo, hi, k) == LET s == lo + W * hi + k IN IF s >= W64 THEN s - W64 ELSE s
LoW(x) == x % W
HiW(x) == x \div W
\* ---- single-block path: the block uses (d0,d1,d2,d3) as they are, then (d0,d1) += 1
StepLo(lo, hi) == LoW(Add64N(lo, hi, 1))
StepHi(lo, hi) == HiW(Add64N(lo, hi, 1))
\* counters used by four consecutive refills
L1lo == StepLo(d0, d1)
L1hi == StepHi(d0, d1)
L2lo == StepLo(L1lo, L1hi)
L2hi == StepHi(L1lo, L1hi)
L3lo == StepLo(L2lo, L2hi)
L3hi == StepHi(L2lo, L2hi)
L4lo == StepLo(L3lo, L3hi)
L4hi == StepHi(L3lo, L3hi)
\* ---- four-block path: lane j = (d0,d1) + j as a 64-bit lane add; state' = lane 0 + 4
WideLo(j) == LoW(Add64N(d0, d1, j))
WideHi(j) == HiW(Add64N(d0, d1, j))
Init == d0 \in 0..(W - 1) /\ d1 \in 0..(W - 1) /\ d2 \in 0..(W - 1) /\ d3 \in 0..(W - 1)
Next == UNCHANGED <<d0, d1, d2, d3>>
Refill4IsFourRefills ==
  /\ WideLo(0) = d0 /\ WideHi(0) = d1
  /\ WideLo(1) = L1lo /\ WideHi(1) = L1hi
  /\ WideLo(2) = L2lo /\ WideHi(2) = L2hi
  /\ WideLo(3) = L3lo /\ WideHi(3) = L3hi
  /\ WideLo(4) = L4lo /\ WideHi(4) = L4hi
\* the increment is exactly +1 on the 64-bit counter, words stay words
CounterAdvances ==
  /\ L1lo + W * L1hi = (IF d0 + W * d1 + 1 = W64 THEN 0 ELSE d0 + W * d1 + 1)
  /\ L1lo >= 0 /\ L1lo < W /\ L1hi >= 0 /\ L1hi < W
Inv == Refill4IsFourRefills /\ CounterAdvances
=============================================================================
