---------------------------- MODULE TraceCtrJH ----------------------------
(* Trace validation for C17 (JH): digests of messages whose length counter starts at a fast-forwarded value (event "ff":
   hook H2 set the counter to `base` on a new instance, then real data crossed the word boundary through the real increment
   code), or of really streamed messages with a checkpoint before the boundary (event "stream": chaining value, counter and
   buffered bytes read through H2; the counter must equal the amount actually fed).  The digest must equal the specification's
   value for (chaining value, amount absorbed, remaining bytes). *)
EXTENDS JH, Json, IOUtils, TLC
Rec == ndJsonDeserialize(IOEnv.TRACE)
N == Len(Rec)
VARIABLES l, phase, bad
vars == <<l, phase, bad>>
WResizeL(a, n) == [i \in 1..n |-> a[i]]
H(e) == IF e.ev = "ff" THEN IVOf(e.alg) ELSE e.chain
Absorbed(e) == IF e.ev = "ff" THEN e.base ELSE e.fed              \* bytes compressed into the chaining value
CounterOk(e) == e.ev = "ff" \/ e.base = WAdd(e.fed, WOfInt(e.pos, 8))
Want(e) == JHFrom(H(e), WShl(Absorbed(e), 3), e.rest, OutBytes(e.alg))
RefOk(e) == ("out_ref" \in DOMAIN e) => (e.out = e.out_ref /\ e.chain = e.chain_ref /\ e.base = e.base_ref /\ e.pos = e.pos_ref)   \* one-call vs chunk-fed instance
Check(e) == e.res = "ok" /\ CounterOk(e) /\ RefOk(e) /\ e.out = Want(e)
Init == l \in 1..N /\ phase = 0 /\ bad = FALSE
Next == /\ phase = 0 /\ phase' = 1 /\ l' = l
        /\ bad' = IF Check(Rec[l]) THEN FALSE ELSE PrintT(<<"REJECT", l>>)
Spec == Init /\ [][Next]_vars
=============================================================================
