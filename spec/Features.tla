------------------------------- MODULE Features -------------------------------
(* The cargo feature lattice of one workspace crate (C20).  The constants are generated at check time from
   `cargo metadata` (MCFeatures.tla in the run directory):
     Crates          the workspace crates
     Feat[c]         the features crate c declares (including implicit optional-dependency features, excluding "default")
     Imp[c][f]       the same-crate features that f enables ("dep:x" and "other-crate/feature" entries removed); Imp[c]["default"] too
   A configuration is what a user can ask for: any subset of Feat[c], with default features on or off.  Cargo builds the
   CLOSURE of the request under Imp; two requests with the same closure are the same build.  TLC enumerates every request
   and folds them by VIEW onto the closures; the dumped states are the configurations to realise with `cargo check`. *)
EXTENDS Integers, FiniteSets, Sequences, TLC
CONSTANTS Crates, Feat, Imp
VARIABLES crate, req, usedefault, closed
vars == <<crate, req, usedefault, closed>>
RECURSIVE Close(_, _, _)
Close(c, S, n) == IF n = 0 THEN S ELSE Close(c, S \cup UNION {Imp[c][f] : f \in S}, n - 1)
Closure(c, S) == Close(c, S, Cardinality(Feat[c]) + 1)
Requested(c, r, d) == r \cup (IF d THEN Imp[c]["default"] ELSE {})
Init == /\ crate \in Crates
        /\ req \in SUBSET Feat[crate]
        /\ usedefault \in BOOLEAN
        /\ closed = Closure(crate, Requested(crate, req, usedefault))
Next == UNCHANGED vars
View == <<crate, closed>>
\* sanity of the generated description and of the closure operator
ClosedIsClosed == \A f \in closed : Imp[crate][f] \subseteq closed
ClosedContainsRequest == Requested(crate, req, usedefault) \subseteq closed
ClosedIsLeast == \A f \in closed : f \in Requested(crate, req, usedefault) \/ \E g \in closed : f \in Imp[crate][g]
=============================================================================
