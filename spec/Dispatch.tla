------------------------------- MODULE Dispatch -------------------------------
(* Exhaustive check of the dispatch decision procedure (DispatchFn.tla) over every build mode x macro x feature level. *)
EXTENDS DispatchFn
VARIABLES mode, macro, level
vars == <<mode, macro, level>>
Init == mode \in Modes /\ macro \in Macros /\ level \in Levels
Next == UNCHANGED vars
\* never reaches unimplemented!() on x86-64
Total == Choice(mode, macro, level) # "PANIC"
\* never executes instructions the CPU / target lacks (would be SIGILL)
Safe == Needs(mode, Choice(mode, macro, level)) <= level
\* the full dispatcher uses the most capable backend available
Best == (macro = "dispatch" /\ mode # "nosimd") => Needs(mode, Choice(mode, macro, level)) = level
=============================================================================
