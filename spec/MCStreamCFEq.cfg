CONSTANTS
  BLOCK = 4
  BUFBLOCKS = 2
  W = 8
  MAXN = 14
  FIXED = TRUE
  N0 <- I0
  NI <- II
  NAdd <- IAdd
  NSub <- ISub
  NLt <- ILt
  NDivB <- IDivB
  NMulB <- IMulB
  NModB <- IModB
  NLo <- ILo
  NHi <- IHi
  NJoin <- IJoin
  NM64 <- IM64
  NW32 <- IW32
  NW64 <- IW64
INIT Init
NEXT Next
VIEW View
CHECK_DEADLOCK FALSE
INVARIANTS EqApply EqPos
PROPERTIES EqSeek
