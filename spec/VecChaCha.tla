----------------------------- MODULE VecChaCha -----------------------------
(* Published vectors pinning ChaChaFn (evaluated in a worker thread, one-step model). *)
EXTENDS ChaChaFn, TLC
Key0to1f == Force([i \in 1..32 |-> i - 1])
RfcNonce == <<0,0,0,9, 0,0,0,74, 0,0,0,0>>
RfcBlock1 == <<16,241,231,228,209,59,89,21,80,15,221,31,163,32,113,196,199,209,244,199,51,192,104,3,4,34,170,154,195,212,108,78,
               210,130,100,70,7,159,170,9,20,194,215,5,217,139,2,162,181,18,156,209,222,22,78,185,203,208,131,232,162,80,60,78>>
\* draft-irtf-cfrg-xchacha-03 section 2.2.1
HNonce == <<0,0,0,9, 0,0,0,74, 0,0,0,0, 49,65,89,39>>
HOut == <<130,65,59,66,39,178,123,254,211,14,66,80,138,135,125,115,160,249,228,213,138,116,168,83,193,46,196,19,38,211,236,220>>
HBytes == LET w == HChaCha(KeyWords(Key0to1f), <<W32At(HNonce, 0), W32At(HNonce, 4), W32At(HNonce, 8), W32At(HNonce, 12)>>, 10)
          IN FlattenSeq([i \in 1..8 |-> LEOfW(w[i])])
\* RFC 7539 2.4.2: keystream for the sunscreen text starts at block 1 with nonce 00 00 00 00 00 00 00 4a 00 00 00 00
Rfc242Nonce == <<0,0,0,0, 0,0,0,74, 0,0,0,0>>
Rfc242First8 == <<34,79,81,243,64,27,217,225>>     \* 22 4f 51 f3 40 1b d9 e1  (first keystream bytes of block 1)
Checks == << KSBlock("Ietf", KeyWords(Key0to1f), RfcNonce, <<1, 0, 0, 0>>) = RfcBlock1,
             HBytes = HOut,
             SubSeq(Keystream("Ietf", Key0to1f, Rfc242Nonce, <<64, 0, 0, 0, 0>>, 8), 1, 8) = Rfc242First8,
             Keystream("Ietf", Key0to1f, RfcNonce, <<100, 0, 0, 0, 0>>, 5) = SubSeq(RfcBlock1, 37, 41) >>
VARIABLES step, res
Init == step = 0 /\ res = <<>>
Next == step = 0 /\ step' = 1 /\ res' = Checks
AllOk == step = 1 => \A i \in 1..Len(res) : res[i]
=============================================================================
