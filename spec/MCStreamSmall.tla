--------------------------- MODULE MCStreamSmall ---------------------------
(* Stream.tla over plain integers at scaled constants: every history of the scaled machine. *)
EXTENDS Stream
CONSTANTS W,       \* values per 32-bit word (real 2^32)
          MAXN     \* largest request length
I0 == 0
II(x) == x
IAdd(a, b) == a + b
ISub(a, b) == a - b
ILt(a, b) == a < b
IDivB(a) == a \div BLOCK
IMulB(a) == a * BLOCK
IModB(a) == a % BLOCK
ILo(a) == a % W
IHi(a) == (a \div W) % W
IJoin(lo, hi) == lo + W * hi
IM64(a) == a % (W * W)
IW32 == W
IW64 == W * W
ASSUME BLOCK < W     \* keeps the real ordering 2^38 < 2^64: the whole ietf stream is seekable
Init == \E v \in {"ietf", "c64"} : \E nz \in {0, 1, W - 1} : (v = "c64" => nz = 0) /\ InitFor(v, nz)
Next == \/ \E p \in 0..(W * W - 1) : Seek(p)
        \/ SeekUnconvertible
        \/ \E n \in 0..MAXN : Apply(n)
        \/ CurrentPos
Spec == Init /\ [][Next]_vars
=============================================================================
