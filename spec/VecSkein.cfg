INIT Init
NEXT Next
INVARIANT AllOk
CHECK_DEADLOCK FALSE
