------------------------------ MODULE TraceGroestl ------------------------------
(* Trace validation of one-shot `digest` events against the executable specification in Groestl.tla.
   Events tagged "kat-file" carry a PUBLISHED digest (NIST known-answer file in the repository) instead of a computed one:
   they pin the specification itself. *)
EXTENDS Groestl, Json, IOUtils, TLC
Rec == ndJsonDeserialize(IOEnv.TRACE)
N == Len(Rec)
VARIABLES l, phase, bad
vars == <<l, phase, bad>>
Check(e) == e.res = "ok" /\ Len(e.out) = e.n /\ e.out = GroestlHash(e.alg, e.msg)
Init == l \in 1..N /\ phase = 0 /\ bad = FALSE
Next == /\ phase = 0 /\ phase' = 1 /\ l' = l
        /\ bad' = IF Check(Rec[l]) THEN FALSE ELSE PrintT(<<"REJECT", l>>)
Spec == Init /\ [][Next]_vars
=============================================================================
