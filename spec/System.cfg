CONSTANTS
  NC = 3
  NH = 4
  DEPTH = 40
SPECIFICATION Spec
CHECK_DEADLOCK FALSE
INVARIANT Emit
PROPERTY Independent
