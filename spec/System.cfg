CONSTANTS
  NC = 3
  NH = 5
  DEPTH = 40
SPECIFICATION Spec
CHECK_DEADLOCK FALSE
INVARIANT Emit
PROPERTY Independent
