INIT Init
NEXT Next
CHECK_DEADLOCK FALSE
INVARIANTS Total Safe Best
