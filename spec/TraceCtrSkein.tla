---------------------------- MODULE TraceCtrSkein ----------------------------
(* Trace validation for C17 (Skein): digests of messages whose length counter starts at a fast-forwarded value (event "ff":
   hook H2 set the counter to `base` on a new instance, then real data crossed the word boundary through the real increment
   code), or of really streamed messages with a checkpoint before the boundary (event "stream": chaining value, counter and
   buffered bytes read through H2; the counter must equal the amount actually fed).  The digest must equal the specification's
   value for (chaining value, amount absorbed, remaining bytes). *)
EXTENDS Skein, Json, IOUtils, TLC
Rec == ndJsonDeserialize(IOEnv.TRACE)
N == Len(Rec)
VARIABLES l, phase, bad
vars == <<l, phase, bad>>
WResizeL(a, n) == [i \in 1..n |-> a[i]]
NB(alg) == CASE alg = "Skein256" -> 32 [] alg = "Skein512" -> 64 [] alg = "Skein1024" -> 128
G(e) == IF e.ev = "ff" THEN SkeinIV(NB(e.alg), e.n) ELSE WordsOf(e.chain)
CounterOk(e) == e.ev = "ff" \/ e.base = WResizeL(e.fed, 4)
Want(e) == SkeinFrom(G(e), e.rest, NB(e.alg), e.n, e.base, e.first)
RefOk(e) == ("out_ref" \in DOMAIN e) => (e.out = e.out_ref /\ e.chain = e.chain_ref /\ e.base = e.base_ref /\ e.pos = e.pos_ref)   \* one-call vs chunk-fed instance
Check(e) == e.res = "ok" /\ CounterOk(e) /\ RefOk(e) /\ e.out = Want(e)
Init == l \in 1..N /\ phase = 0 /\ bad = FALSE
Next == /\ phase = 0 /\ phase' = 1 /\ l' = l
        /\ bad' = IF Check(Rec[l]) THEN FALSE ELSE PrintT(<<"REJECT", l>>)
Spec == Init /\ [][Next]_vars
=============================================================================
