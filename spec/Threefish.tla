---------------------------- MODULE Threefish ----------------------------
(* Threefish-256/512/1024 as defined in "The Skein Hash Function Family" v1.3, section 3.3: MIX, word permutation pi,
   rotation constants R, key schedule with C240 and tweak; encrypt and an independently written decrypt.
   64-bit words = 4 little-endian 16-bit limbs.  Nothing here is derived from the implementation. *)
EXTENDS Integers, Sequences, Bitwise, TLC
Force(f) == f \o <<>>
LB == 65536
Z64 == <<0, 0, 0, 0>>
Add64(a, b) == LET s0 == a[1] + b[1]
                   s1 == a[2] + b[2] + (s0 \div LB)
                   s2 == a[3] + b[3] + (s1 \div LB)
                   s3 == a[4] + b[4] + (s2 \div LB)
               IN <<s0 % LB, s1 % LB, s2 % LB, s3 % LB>>
Sub64(a, b) == LET d0 == a[1] - b[1]
                   c0 == IF d0 < 0 THEN 1 ELSE 0
                   d1 == a[2] - b[2] - c0
                   c1 == IF d1 < 0 THEN 1 ELSE 0
                   d2 == a[3] - b[3] - c1
                   c2 == IF d2 < 0 THEN 1 ELSE 0
                   d3 == a[4] - b[4] - c2
               IN <<(d0 + LB) % LB, (d1 + LB) % LB, (d2 + LB) % LB, (d3 + LB) % LB>>
Xor64(a, b) == <<a[1] ^^ b[1], a[2] ^^ b[2], a[3] ^^ b[3], a[4] ^^ b[4]>>
RotL64(a, r) == LET k == r \div 16
                    s == r % 16
                    x == <<a[((0 - k) % 4) + 1], a[((1 - k) % 4) + 1], a[((2 - k) % 4) + 1], a[((3 - k) % 4) + 1]>>
                    p == 2^s
                    q == 2^(16 - s)
                IN IF s = 0 THEN x
                   ELSE << ((x[1] * p) % LB) + (x[4] \div q), ((x[2] * p) % LB) + (x[1] \div q),
                           ((x[3] * p) % LB) + (x[2] \div q), ((x[4] * p) % LB) + (x[3] \div q) >>
RotR64(a, r) == RotL64(a, (64 - r) % 64)
OfInt64(n) == <<n % LB, (n \div LB) % LB, 0, 0>>          \* n < 2^31
\* little-endian bytes <-> words
WOfLE(bs) == <<bs[1] + 256 * bs[2], bs[3] + 256 * bs[4], bs[5] + 256 * bs[6], bs[7] + 256 * bs[8]>>
LEOfW(w) == <<w[1] % 256, w[1] \div 256, w[2] % 256, w[2] \div 256, w[3] % 256, w[3] \div 256, w[4] % 256, w[4] \div 256>>
WordsOf(bytes) == Force([i \in 1..(Len(bytes) \div 8) |-> WOfLE(SubSeq(bytes, 8 * i - 7, 8 * i))])
RECURSIVE BytesOf(_)
BytesOf(ws) == IF ws = <<>> THEN <<>> ELSE LEOfW(Head(ws)) \o BytesOf(Tail(ws))
C240 == <<6690, 43516, 7130, 7121>>      \* 0x1BD11BDAA9FC1A22
R(nw) == CASE nw = 4 -> << <<14,16>>, <<52,57>>, <<23,40>>, <<5,37>>, <<25,33>>, <<46,12>>, <<58,22>>, <<32,32>> >>
           [] nw = 8 -> << <<46,36,19,37>>, <<33,27,14,42>>, <<17,49,36,39>>, <<44,9,54,56>>, <<39,30,34,24>>, <<13,50,10,17>>, <<25,29,39,43>>, <<8,35,56,22>> >>
           [] nw = 16 -> << <<24,13,8,47,8,17,22,37>>, <<38,19,10,55,49,18,23,52>>, <<33,4,51,13,34,41,59,17>>, <<5,20,48,41,47,28,16,25>>,
                            <<41,9,37,31,12,47,44,30>>, <<16,34,56,51,4,53,42,41>>, <<31,44,47,46,19,42,44,25>>, <<9,48,35,52,23,31,37,20>> >>
\* word permutation pi of the specification: v'[i] = f[PI[i]]  (0-based values)
PI(nw) == CASE nw = 4 -> <<0,3,2,1>>
            [] nw = 8 -> <<2,1,4,7,6,5,0,3>>
            [] nw = 16 -> <<0,9,2,13,6,11,4,15,10,7,12,3,14,5,8,1>>
NRounds(nw) == IF nw = 16 THEN 80 ELSE 72
RECURSIVE XorAll(_, _, _)
XorAll(k, i, acc) == IF i > Len(k) THEN acc ELSE XorAll(k, i + 1, Xor64(acc, k[i]))
KeyExt(k) == Append(k, XorAll(k, 1, C240))
Subkey(kx, t, s, nw) == Force([i \in 1..nw |->
      LET base == kx[((s + i - 1) % (nw + 1)) + 1] IN
      IF i = nw - 2 THEN Add64(base, t[(s % 3) + 1])
      ELSE IF i = nw - 1 THEN Add64(base, t[((s + 1) % 3) + 1])
      ELSE IF i = nw THEN Add64(base, OfInt64(s))
      ELSE base])
AddKey(v, sk) == Force([i \in 1..Len(v) |-> Add64(v[i], sk[i])])
SubKey(v, sk) == Force([i \in 1..Len(v) |-> Sub64(v[i], sk[i])])
MixRound(e, d, nw) == LET rot == R(nw)[(d % 8) + 1]
                          f == Force([i \in 1..nw |->
                                 LET j == (i + 1) \div 2
                                     y0 == Add64(e[2 * j - 1], e[2 * j])
                                 IN IF i % 2 = 1 THEN y0 ELSE Xor64(RotL64(e[2 * j], rot[j]), y0)])
                          pi == PI(nw)
                      IN Force([i \in 1..nw |-> f[pi[i] + 1]])
RECURSIVE Enc(_, _, _, _, _)
Enc(v, kx, t, d, nw) == IF d = NRounds(nw) THEN AddKey(v, Subkey(kx, t, d \div 4, nw))
                        ELSE LET e == IF d % 4 = 0 THEN AddKey(v, Subkey(kx, t, d \div 4, nw)) ELSE v
                             IN Enc(MixRound(e, d, nw), kx, t, d + 1, nw)
\* independently written inverse
UnMixRound(v, d, nw) == LET rot == R(nw)[(d % 8) + 1]
                            pi == PI(nw)
                            \* f[pi[i]] = v[i]  =>  f[k] = v[i] where pi[i] = k
                            f == Force([k \in 1..nw |-> v[CHOOSE i \in 1..nw : pi[i] + 1 = k]])
                        IN Force([i \in 1..nw |->
                              LET j == (i + 1) \div 2
                                  x1 == RotR64(Xor64(f[2 * j - 1], f[2 * j]), rot[j])
                              IN IF i % 2 = 0 THEN x1 ELSE Sub64(f[2 * j - 1], x1)])
RECURSIVE Dec(_, _, _, _, _)
Dec(v, kx, t, d, nw) == IF d = 0 THEN v
                        ELSE LET u == UnMixRound(v, d - 1, nw)
                                 e == IF (d - 1) % 4 = 0 THEN SubKey(u, Subkey(kx, t, (d - 1) \div 4, nw)) ELSE u
                             IN Dec(e, kx, t, d - 1, nw)
\* key, block: tuples of words ; t0,t1 words
Encrypt(k, t0, t1, blk) == Enc(blk, KeyExt(k), <<t0, t1, Xor64(t0, t1)>>, 0, Len(k))
Decrypt(k, t0, t1, blk) == LET nw == Len(k)  kx == KeyExt(k)  t == <<t0, t1, Xor64(t0, t1)>>
                           IN Dec(SubKey(blk, Subkey(kx, t, NRounds(nw) \div 4, nw)), kx, t, NRounds(nw), nw)
=============================================================================
