------------------------------ MODULE ChaChaFn ------------------------------
(* The ChaCha block function, HChaCha and the three nonce/counter layouts, written from
   D. J. Bernstein "ChaCha, a variant of Salsa20", RFC 7539 section 2 and
   draft-irtf-cfrg-xchacha section 2.  32-bit words are <<lo16, hi16>> (module Limbs).
   Nothing here is derived from the implementation. *)
EXTENDS Limbs

Add32(a, b) == LET s == a[1] + b[1] IN <<s % LB, (a[2] + b[2] + (s \div LB)) % LB>>
Xor32(a, b) == <<a[1] ^^ b[1], a[2] ^^ b[2]>>
Rotl32(a, r) == IF r = 16 THEN <<a[2], a[1]>>
                ELSE IF r < 16 THEN LET p == 2^r  q == 2^(16 - r)
                                    IN <<((a[1] * p) % LB) + (a[2] \div q), ((a[2] * p) % LB) + (a[1] \div q)>>
                ELSE LET p == 2^(r - 16)  q == 2^(32 - r)
                     IN <<((a[2] * p) % LB) + (a[1] \div q), ((a[1] * p) % LB) + (a[2] \div q)>>

\* quarter round on four words
QR(a, b, c, d) == LET a1 == Add32(a, b)
                      d1 == Rotl32(Xor32(d, a1), 16)
                      c1 == Add32(c, d1)
                      b1 == Rotl32(Xor32(b, c1), 12)
                      a2 == Add32(a1, b1)
                      d2 == Rotl32(Xor32(d1, a2), 8)
                      c2 == Add32(c1, d2)
                      b2 == Rotl32(Xor32(b1, c2), 7)
                  IN <<a2, b2, c2, d2>>
QRAt(x, i, j, k, m) == LET r == QR(x[i], x[j], x[k], x[m])
                       IN [x EXCEPT ![i] = r[1], ![j] = r[2], ![k] = r[3], ![m] = r[4]]
DoubleRound(x) == LET c1 == QRAt(x, 1, 5, 9, 13)
                      c2 == QRAt(c1, 2, 6, 10, 14)
                      c3 == QRAt(c2, 3, 7, 11, 15)
                      c4 == QRAt(c3, 4, 8, 12, 16)
                      d1 == QRAt(c4, 1, 6, 11, 16)
                      d2 == QRAt(d1, 2, 7, 12, 13)
                      d3 == QRAt(d2, 3, 8, 9, 14)
                  IN QRAt(d3, 4, 5, 10, 15)
RECURSIVE DRounds(_, _)
DRounds(x, n) == IF n = 0 THEN x ELSE DRounds(DoubleRound(x), n - 1)

\* "expand 32-byte k"
SIGMA == << <<30821, 24944>>, <<25710, 13088>>, <<11570, 31074>>, <<25972, 27424>> >>

\* key: 8 words ; d: 4 words (row 3 of the matrix: counter / nonce words) ; returns 16 words
BlockWords(key, d, drounds) ==
  LET init == SIGMA \o key \o d
      w == DRounds(init, drounds)
  IN Force([i \in 1..16 |-> Add32(w[i], init[i])])
BlockBytes(key, d, drounds) == LET w == BlockWords(key, d, drounds)
                               IN Force([k \in 1..64 |-> LET x == w[((k - 1) \div 4) + 1]
                                                             j == (k - 1) % 4
                                                         IN IF j = 0 THEN x[1] % 256 ELSE IF j = 1 THEN x[1] \div 256
                                                            ELSE IF j = 2 THEN x[2] % 256 ELSE x[2] \div 256])
\* HChaCha: rounds only, no feed-forward; output = rows 0 and 3
HChaCha(key, n4, drounds) == LET w == DRounds(SIGMA \o key \o n4, drounds)
                             IN <<w[1], w[2], w[3], w[4], w[13], w[14], w[15], w[16]>>

KeyWords(kb) == Force([i \in 1..8 |-> WOfLE(kb, 4 * (i - 1), 2)])
W32At(b, off) == WOfLE(b, off, 2)

\* ---- the three layouts.  blk = block index as 4 limbs (64-bit); returns <<key words, d words>>
\* layout "c64": 8-byte nonce, 64-bit counter in words 12,13
\* layout "ietf": 12-byte nonce, 32-bit counter in word 12 (blk[3], blk[4] must be 0)
\* layout "x": 24-byte nonce; subkey = HChaCha(key, nonce[0..16]); then c64 with nonce[16..24]
Layout(variant) == CASE variant \in {"ChaCha8", "ChaCha12", "ChaCha20"} -> "c64"
                     [] variant = "Ietf" -> "ietf"
                     [] variant \in {"XChaCha8", "XChaCha12", "XChaCha20"} -> "x"
DRoundsOf(variant) == CASE variant \in {"ChaCha8", "XChaCha8"} -> 4
                        [] variant \in {"ChaCha12", "XChaCha12"} -> 6
                        [] variant \in {"ChaCha20", "XChaCha20", "Ietf"} -> 10
NonceLen(variant) == CASE Layout(variant) = "c64" -> 8 [] Layout(variant) = "ietf" -> 12 [] Layout(variant) = "x" -> 24

\* effective key words for a cipher instance (computed once per instance)
EffKey(variant, kb, nb) ==
  IF Layout(variant) = "x"
  THEN HChaCha(KeyWords(kb), <<W32At(nb, 0), W32At(nb, 4), W32At(nb, 8), W32At(nb, 12)>>, DRoundsOf(variant))
  ELSE KeyWords(kb)
\* row 3 for block index blk (4 limbs)
DWords(variant, nb, blk) ==
  CASE Layout(variant) = "c64"  -> << <<blk[1], blk[2]>>, <<blk[3], blk[4]>>, W32At(nb, 0), W32At(nb, 4) >>
    [] Layout(variant) = "ietf" -> << <<blk[1], blk[2]>>, W32At(nb, 0), W32At(nb, 4), W32At(nb, 8) >>
    [] Layout(variant) = "x"    -> << <<blk[1], blk[2]>>, <<blk[3], blk[4]>>, W32At(nb, 16), W32At(nb, 20) >>
\* 64 keystream bytes of block blk
KSBlock(variant, ekey, nb, blk) == BlockBytes(ekey, DWords(variant, nb, blk), DRoundsOf(variant))

\* number of keystream blocks: 2^32 for ietf, 2^64 otherwise  (as 5 limbs)
TotalBlocks(variant) == IF Layout(variant) = "ietf" THEN <<0, 0, 1, 0, 0>> ELSE <<0, 0, 0, 0, 1>>

\* keystream bytes pos .. pos+n-1 ; pos = 5 limbs (byte position < 2^70), n Int
RECURSIVE KSFrom(_, _, _, _, _)
KSFrom(variant, ekey, nb, pos, n) ==
  IF n = 0 THEN <<>>
  ELSE LET off == pos[1] % 64
           take == Min2(64 - off, n)
           blk == WResize(WShr(pos, 6), 4)
           ks == KSBlock(variant, ekey, nb, blk)
       IN SubSeq(ks, off + 1, off + take) \o KSFrom(variant, ekey, nb, WAdd(pos, WOfInt(take, 5)), n - take)
Keystream(variant, kb, nb, pos, n) == KSFrom(variant, EffKey(variant, kb, nb), nb, pos, n)
=============================================================================
