----------------------------- MODULE TraceStream -----------------------------
(* Trace validation for C02 / C11: the IDEAL stream specification (the property as stated) as a
   deterministic monitor over recorded histories of one cipher instance.
     state: the cipher's parameters and its absolute byte position `pos` (5 limbs).
     seek(ty, v)   : Ok iff v is convertible to u64 and v <= TotalBytes; then pos' = v; else Err, no effect
     apply(n)      : Ok iff pos + n <= TotalBytes; after = before XOR keystream[pos, pos+n); pos' = pos + n
                     else Err, data unchanged, pos unchanged
     pos(ty)       : Ok(pos) iff pos fits the type, else overflow error
   and no call panics.  Episodes (k = 0 starts one) are independent initial states. *)
EXTENDS StreamIdeal, Json, IOUtils, TLC
Rec == ndJsonDeserialize(IOEnv.TRACE)
N == Len(Rec)
VARIABLES l, st, bad
vars == <<l, st, bad>>
Starts == {i \in 1..N : Rec[i].k = 0}
Init == \E i \in Starts : l = i /\ st = InitSt(Rec[i]) /\ bad = FALSE
Next == /\ ~bad /\ l < N /\ Rec[l + 1].k # 0
        /\ LET e == Rec[l + 1]
               r == Step(st, e)
           IN /\ l' = l + 1
              /\ st' = r[2]
              /\ bad' = IF r[1] THEN FALSE ELSE PrintT(<<"REJECT", l + 1>>)
Spec == Init /\ [][Next]_vars
=============================================================================
