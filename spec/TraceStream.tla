----------------------------- MODULE TraceStream -----------------------------
(* Trace validation for C02 / C11: the IDEAL stream specification (the property as stated) as a
   deterministic monitor over recorded histories of one cipher instance.
     state: the cipher's parameters and its absolute byte position `pos` (5 limbs).
     seek(ty, v)   : Ok iff v is convertible to u64 and v <= TotalBytes; then pos' = v; else Err, no effect
     apply(n)      : Ok iff pos + n <= TotalBytes; after = before XOR keystream[pos, pos+n); pos' = pos + n
                     else Err, data unchanged, pos unchanged
     pos(ty)       : Ok(pos) iff pos fits the type, else overflow error
   and no call panics.  Episodes (k = 0 starts one) are independent initial states. *)
EXTENDS ChaChaFn, Json, IOUtils, TLC
Rec == ndJsonDeserialize(IOEnv.TRACE)
N == Len(Rec)
VARIABLES l, st, bad
vars == <<l, st, bad>>
Starts == {i \in 1..N : Rec[i].k = 0}
TotalBytes(v) == WShl(TotalBlocks(v), 6)
U64MAX8 == <<65535, 65535, 65535, 65535, 0, 0, 0, 0>>
TypeMax(ty) == CASE ty = "u8" -> <<255, 0, 0, 0, 0, 0, 0, 0>>
                 [] ty = "u16" -> <<65535, 0, 0, 0, 0, 0, 0, 0>>
                 [] ty = "u32" -> <<65535, 65535, 0, 0, 0, 0, 0, 0>>
                 [] ty = "i32" -> <<65535, 32767, 0, 0, 0, 0, 0, 0>>
                 [] ty \in {"u64", "usize"} -> U64MAX8
                 [] ty = "u128" -> <<65535, 65535, 65535, 65535, 65535, 65535, 65535, 65535>>
InitSt(e) == [variant |-> e.variant, ekey |-> EffKey(e.variant, e.key, e.nonce), nonce |-> e.nonce, pos |-> <<0, 0, 0, 0, 0>>]
\* returns <<accepted, st'>>
StepSeek(s, e) == LET convertible == ~e.neg /\ WLe(e.val, U64MAX8)
                      ok == convertible /\ WLe(e.val, WResize(TotalBytes(s.variant), 8))
                  IN IF ok THEN <<e.res = "ok", [s EXCEPT !.pos = WResize(e.val, 5)]>>
                     ELSE <<e.res = "err", s>>
StepApply(s, e) == LET endp == WAdd(s.pos, WOfInt(e.n, 5))
                       ok == WLe(endp, TotalBytes(s.variant))
                   IN IF ok THEN << /\ e.res = "ok" /\ e.guard /\ Len(e.after) = e.n
                                    /\ e.after = BXor(e.before, KSFrom(s.variant, s.ekey, s.nonce, s.pos, e.n)),
                                    [s EXCEPT !.pos = endp] >>
                      ELSE << e.res = "err" /\ e.guard /\ e.after = e.before, s >>
StepPos(s, e) == LET p8 == WResize(s.pos, 8)
                 IN IF WLe(p8, TypeMax(e.ty)) THEN <<e.res = "ok" /\ e.val = p8, s>> ELSE <<e.res = "ovf", s>>
\* the harness put the instance, through its public fields, into the state the model has at position e.pos
StepTeleport(s, e) == <<e.res = "ok", [s EXCEPT !.pos = e.pos]>>
Step(s, e) == CASE e.ev = "seek" -> StepSeek(s, e)
                [] e.ev = "teleport" -> StepTeleport(s, e)
                [] e.ev = "apply" -> StepApply(s, e)
                [] e.ev = "pos" -> StepPos(s, e)
Init == \E i \in Starts : l = i /\ st = InitSt(Rec[i]) /\ bad = FALSE
Next == /\ ~bad /\ l < N /\ Rec[l + 1].k # 0
        /\ LET e == Rec[l + 1]
               r == Step(st, e)
           IN /\ l' = l + 1
              /\ st' = r[2]
              /\ bad' = IF r[1] THEN FALSE ELSE PrintT(<<"REJECT", l + 1>>)
Spec == Init /\ [][Next]_vars
=============================================================================
