------------------------------- MODULE HashInst -------------------------------
(* Several live hasher instances (C08, C18): update with arbitrary pieces over a 2-letter alphabet, clone at any point,
   reset, finalize_reset, finalize.  Compression is abstract: an instance is (blocks compressed so far, buffer); eager
   (BLAKE, Groestl, JH: a full buffer is flushed at once) or lazy (Skein: the last full block is held back) flushing.
   `msg[i]` is the ghost message of instance i (bytes since its last reset, following clone ancestry).
   The digest of a state is abstract too: the pair (blocks, buffer) - two states give the same digest iff they are equal.
     StateIsFunctionOfMessage : every instance is in exactly the state a single update(msg) on a new instance gives (chunking)
     digests observed by finalize / finalize_reset equal OneShot(ghost message)
     steps on instance i leave every other instance unchanged (independence)                                            *)
EXTENDS Integers, Sequences, TLC
CONSTANTS B, LAZY, MAXLEN, NINST
Letters == {0, 1}
Inst == 1..NINST
VARIABLES st,      \* st[i] = [alive, blocks, buf]
          msg,     \* ghost
          last     \* observable outcome of the last call (hidden by VIEW)
vars == <<st, msg, last>>
View == <<st, msg>>
Fresh == [alive |-> TRUE, blocks |-> <<>>, buf |-> <<>>]
Dead == [alive |-> FALSE, blocks |-> <<>>, buf |-> <<>>]
RECURSIVE Feed(_, _)
Feed(s, d) == LET room == B - Len(s.buf)
              IN IF (IF LAZY THEN Len(d) <= room ELSE Len(d) < room)
                 THEN [s EXCEPT !.buf = s.buf \o d]
                 ELSE Feed([s EXCEPT !.blocks = Append(s.blocks, s.buf \o SubSeq(d, 1, room)), !.buf = <<>>], SubSeq(d, room + 1, Len(d)))
OneShot(m) == Feed(Fresh, m)
Digest(s) == <<s.blocks, s.buf>>
RECURSIVE Pieces(_)
Pieces(n) == IF n = 0 THEN {<<>>} ELSE LET P == Pieces(n - 1) IN P \cup {Append(p, x) : p \in {q \in P : Len(q) = n - 1}, x \in Letters}
Update(i, d) == /\ st[i].alive /\ Len(msg[i]) + Len(d) <= MAXLEN
                /\ st' = [st EXCEPT ![i] = Feed(st[i], d)]
                /\ msg' = [msg EXCEPT ![i] = msg[i] \o d]
                /\ last' = [op |-> "update", i |-> i]
\* clone(): into an empty slot; clone_from(): over a live instance (j # i)
Clone(i, j) == /\ st[i].alive /\ j # i
               /\ st' = [st EXCEPT ![j] = st[i]]
               /\ msg' = [msg EXCEPT ![j] = msg[i]]
               /\ last' = [op |-> "clone", i |-> j]
Reset(i) == /\ st[i].alive
            /\ st' = [st EXCEPT ![i] = Fresh] /\ msg' = [msg EXCEPT ![i] = <<>>]
            /\ last' = [op |-> "reset", i |-> i]
FinalizeReset(i) == /\ st[i].alive
                    /\ last' = [op |-> "finreset", i |-> i, out |-> Digest(st[i]), want |-> Digest(OneShot(msg[i]))]
                    /\ st' = [st EXCEPT ![i] = Fresh] /\ msg' = [msg EXCEPT ![i] = <<>>]
Finalize(i) == /\ st[i].alive
               /\ last' = [op |-> "fin", i |-> i, out |-> Digest(st[i]), want |-> Digest(OneShot(msg[i]))]
               /\ st' = [st EXCEPT ![i] = Dead] /\ msg' = [msg EXCEPT ![i] = <<>>]
Init == /\ st = [i \in Inst |-> IF i = 1 THEN Fresh ELSE Dead]
        /\ msg = [i \in Inst |-> <<>>]
        /\ last = [op |-> "new", i |-> 1]
Next == \E i \in Inst : \/ \E d \in Pieces(MAXLEN) : Update(i, d)
                        \/ \E j \in Inst : Clone(i, j)
                        \/ Reset(i) \/ FinalizeReset(i) \/ Finalize(i)
Spec == Init /\ [][Next]_vars
StateIsFunctionOfMessage == \A i \in Inst : st[i].alive => st[i] = OneShot(msg[i])
DigestRightA == last'.op \in {"finreset", "fin"} => last'.out = last'.want
IndependentA == \A k \in Inst : k # last'.i => (st'[k] = st[k] /\ msg'[k] = msg[k])
DigestRight == [][DigestRightA]_vars
Independent == [][IndependentA]_vars
=============================================================================
