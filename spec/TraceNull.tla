------------------------------ MODULE TraceNull ------------------------------
(* Trace validation for C19: the ppv-null emulation types (u32x4, u64x4, u128x1, u128x2, u32x4x4) must equal
   plain wrapping scalar arithmetic lane by lane, and no call may panic.  Values are little-endian byte images. *)
EXTENDS SimdOps, Json, IOUtils, TLC
Rec == ndJsonDeserialize(IOEnv.TRACE)
N == Len(Rec)
VARIABLES l, phase, bad
vars == <<l, phase, bad>>
NWordBytes(ty) == CASE ty \in {"n_u32x4", "n_u32x4x4"} -> 4 [] ty = "n_u64x4" -> 8 [] ty \in {"n_u128x1", "n_u128x2"} -> 16
RECURSIVE Repeat(_, _)
Repeat(x, k) == IF k = 0 THEN <<>> ELSE x \o Repeat(x, k - 1)
\* rotate word j of a right by the amount held in word j of b
RotByVec(a, b, wb) == FlattenSeq([j \in 1..(Len(a) \div wb) |->
                         LEOfW(WRotR(WOfLE(a, wb * (j - 1), wb \div 2), b[wb * (j - 1) + 1] % (8 * wb)))])
NSem(ty, op, a, b, i) ==
  LET wb == NWordBytes(ty) IN
  CASE op \in {"add", "add_assign"} -> LET Add(x, y) == WAdd(x, y) IN Map2Words(a, b, wb, Add)
    [] op \in {"xor", "xor_assign", "xor_store"} -> BXor(a, b)
    [] op = "and" -> BAnd(a, b)
    [] op = "or" -> BOr(a, b)
    [] op = "not" -> BNot(a)
    [] op = "andnot" -> BAnd(BNot(a), b)
    [] op \in {"from_slice", "load", "from_parts"} -> a
    [] op = "splat" -> Repeat(a, 4)
    [] op = "extract" -> SubSeq(a, wb * i + 1, wb * (i + 1))
    [] op = "replace" -> SubSeq(a, 1, wb * i) \o b \o SubSeq(a, wb * (i + 1) + 1, Len(a))
    [] op = "rotate_words_right" -> (CASE i = 0 -> a
                                       [] i = 1 -> PermElems(a, 4 * wb, 4, Src1230)
                                       [] i = 2 -> PermElems(a, 4 * wb, 4, Src2301)
                                       [] i = 3 -> PermElems(a, 4 * wb, 4, Src3012))
    [] op \in {"splat_rotate_right", "rotate_right"} -> LET Rot(x) == WRotR(x, i) IN MapWords(a, wb, Rot)
    [] op = "rotate_right_v" -> RotByVec(a, b, wb)
    [] op \in {"swap1", "swap2", "swap4", "swap8", "swap16", "swap32", "swap64"} -> SwapBits(a, SwapAmount(op))
Check(e) == e.res = "ok" /\ e.out = NSem(e.ty, e.op, e.a, e.b, e.i)
Init == l \in 1..N /\ phase = 0 /\ bad = FALSE
Next == /\ phase = 0 /\ phase' = 1 /\ l' = l
        /\ bad' = IF Check(Rec[l]) THEN FALSE ELSE PrintT(<<"REJECT", l>>)
Spec == Init /\ [][Next]_vars
=============================================================================
