------------------------------- MODULE SimdOps -------------------------------
(* Scalar meaning of the ppv-lite86 vector vocabulary (types.rs).  A vector value is its byte string
   in little-endian storage order (16 / 32 / 64 bytes); a vector type fixes the word size:
       u32x4, u32x4x2, u32x4x4 : 4-byte words      u64x2, u64x2x2, u64x4, u64x2x4 : 8-byte words
       u128x1, u128x2, u128x4  : 16-byte words
   Sem(ty, op, a, b, i) is the byte string the operation must return. *)
EXTENDS Limbs
WordBytes(ty) == CASE ty \in {"u32x4", "u32x4x2", "u32x4x4"} -> 4
                   [] ty \in {"u64x2", "u64x2x2", "u64x4", "u64x2x4"} -> 8
                   [] ty \in {"u128x1", "u128x2", "u128x4"} -> 16
\* number of elements the Vec2 / Vec4 / MultiLane view of the type has
Elems(ty) == CASE ty \in {"u32x4", "u64x4", "u32x4x4", "u64x2x4", "u128x4"} -> 4
               [] ty \in {"u64x2", "u32x4x2", "u64x2x2", "u128x2"} -> 2
               [] ty = "u128x1" -> 1
\* per-word map: F takes and returns a limb tuple
MapWords(a, wb, F(_)) == FlattenSeq([j \in 1..(Len(a) \div wb) |-> LEOfW(F(WOfLE(a, wb * (j - 1), wb \div 2)))])
Map2Words(a, b, wb, F(_, _)) == FlattenSeq([j \in 1..(Len(a) \div wb) |-> LEOfW(F(WOfLE(a, wb * (j - 1), wb \div 2), WOfLE(b, wb * (j - 1), wb \div 2)))])
BAnd(a, b) == Force([k \in 1..Len(a) |-> a[k] & b[k]])
BOr(a, b) == Force([k \in 1..Len(a) |-> a[k] | b[k]])
BNot(a) == Force([k \in 1..Len(a) |-> 255 - a[k]])
\* byte reversal inside every word of wb bytes
BSwapW(a, wb) == Force([k \in 1..Len(a) |-> LET w == (k - 1) \div wb  o == (k - 1) % wb IN a[w * wb + (wb - 1 - o) + 1]])
\* permutation of the ne elements of every group of gb bytes: result element j = source element Src(j) (0-based)
PermElems(a, gb, ne, Src(_)) == LET es == gb \div ne
                                IN Force([k \in 1..Len(a) |-> LET g == (k - 1) \div gb
                                                                  j == ((k - 1) % gb) \div es
                                                                  o == (k - 1) % es
                                                              IN a[g * gb + Src(j) * es + o + 1]])
\* the name lists, for source positions 0,1,2,3, the destination position:  shuffle1230: 0->1 1->2 2->3 3->0
Src1230(j) == (j + 3) % 4
Src2301(j) == (j + 2) % 4
Src3012(j) == (j + 1) % 4
\* exchange adjacent groups of n bits
SwapBits(a, n) == CASE n = 1 -> Force([k \in 1..Len(a) |-> ((a[k] & 85) * 2) + ((a[k] & 170) \div 2)])
                    [] n = 2 -> Force([k \in 1..Len(a) |-> ((a[k] & 51) * 4) + ((a[k] & 204) \div 4)])
                    [] n = 4 -> Force([k \in 1..Len(a) |-> ((a[k] & 15) * 16) + (a[k] \div 16)])
                    [] OTHER -> LET d == n \div 8
                                IN Force([k \in 1..Len(a) |-> IF ((k - 1) \div d) % 2 = 0 THEN a[k + d] ELSE a[k - d]])
Lane(a, j) == SubSeq(a, 16 * j + 1, 16 * j + 16)
Transpose4(x) == LET a == SubSeq(x, 1, 64)  b == SubSeq(x, 65, 128)  c == SubSeq(x, 129, 192)  d == SubSeq(x, 193, 256)
                 IN FlattenSeq([j \in 1..4 |-> Lane(a, j - 1) \o Lane(b, j - 1) \o Lane(c, j - 1) \o Lane(d, j - 1)])
RotAmount(op) == CASE op = "rotr7" -> 7 [] op = "rotr8" -> 8 [] op = "rotr11" -> 11 [] op = "rotr12" -> 12 [] op = "rotr16" -> 16
                   [] op = "rotr20" -> 20 [] op = "rotr24" -> 24 [] op = "rotr25" -> 25 [] op = "rotr32" -> 32
SwapAmount(op) == CASE op = "swap1" -> 1 [] op = "swap2" -> 2 [] op = "swap4" -> 4 [] op = "swap8" -> 8 [] op = "swap16" -> 16
                    [] op = "swap32" -> 32 [] op = "swap64" -> 64
IdentityOps == {"to_lanes", "from_lanes", "vec", "vzip", "to_scalars", "read_le", "write_le",
                "as_u64x2", "from_u64x2", "u128x1_into_u32x4", "as_u64x4", "from_u64x4", "u64x4_as_u32x4x2", "u128x2_as_u64x2x2",
                "u64x2x4_as_u32x4x4", "u128x4_as_u64x2x4",
                "st_u128x1", "st_u32x8", "st_u128x2", "st_u32x16", "st_u64x8", "st_u128x4"}
Sem(ty, op, a, b, i) ==
  CASE op \in {"add", "add_assign"} -> LET Add(x, y) == WAdd(x, y) IN Map2Words(a, b, WordBytes(ty), Add)
    [] op \in {"xor", "xor_assign"} -> BXor(a, b)
    [] op \in {"and", "and_assign"} -> BAnd(a, b)
    [] op \in {"or", "or_assign"} -> BOr(a, b)
    [] op = "eq" -> IF a = b THEN <<1>> ELSE <<0>>
    [] op = "andnot" -> BAnd(BNot(a), b)
    [] op = "not" -> BNot(a)
    [] op \in {"rotr7", "rotr8", "rotr11", "rotr12", "rotr16", "rotr20", "rotr24", "rotr25", "rotr32"} ->
         LET Rot(x) == WRotR(x, RotAmount(op)) IN MapWords(a, WordBytes(ty), Rot)
    [] op \in {"bswap", "read_be", "write_be"} -> BSwapW(a, WordBytes(ty))
    [] op = "shuffle1230" -> PermElems(a, Len(a), 4, Src1230)
    [] op = "shuffle2301" -> PermElems(a, Len(a), 4, Src2301)
    [] op = "shuffle3012" -> PermElems(a, Len(a), 4, Src3012)
    [] op = "lane1230" -> PermElems(a, 16, 4, Src1230)
    [] op = "lane2301" -> PermElems(a, 16, 4, Src2301)
    [] op = "lane3012" -> PermElems(a, 16, 4, Src3012)
    [] op \in {"swap1", "swap2", "swap4", "swap8", "swap16", "swap32", "swap64"} -> SwapBits(a, SwapAmount(op))
    [] op = "extract" -> LET es == Len(a) \div Elems(ty) IN SubSeq(a, es * i + 1, es * (i + 1))
    [] op = "insert" -> LET es == Len(a) \div Elems(ty) IN SubSeq(a, 1, es * i) \o b \o SubSeq(a, es * (i + 1) + 1, Len(a))
    [] op = "transpose4" -> Transpose4(a)
    [] op \in IdentityOps -> a
=============================================================================
