CONSTANTS
  B = 6
  FOOT = 3
  KIND = "blake"
  CW = 8
  MAXLEN = 20
  MAXPIECE = 14
INIT Init
NEXT Next
CHECK_DEADLOCK FALSE
INVARIANTS Coherent CounterExact FinalRight
