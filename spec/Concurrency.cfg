CONSTANTS
  Threads = {1, 2}
  Cells = {"tf512", "of512", "init512"}
  K = 2
  Best = "aes"
SPECIFICATION Spec
CHECK_DEADLOCK FALSE
INVARIANTS InvokeSeesInitialised OnceExclusive ResultsScheduleFree NoStuck
PROPERTY Terminates
