------------------------------ MODULE TraceGuts ------------------------------
(* Trace validation for C14 / C15: the block-level API `guts::ChaCha` at the real word size.
   State: key words, 64-bit block counter c and 64-bit stream id s (row 3 of the matrix = c.lo, c.hi, s.lo, s.hi).
     gnew(key, nonce)     c = 0 (nonce 8)  |  c = nonce[0..4] << 32 (nonce 12);  s = last 8 nonce bytes
     setp(p, v) / getp(p) parameter 0 = c, parameter 1 = s
     refill(dr)           out = Block(key, row3, dr); c' = c + 1 mod 2^64
     refill4(dr)          out = the four blocks at c, c+1, c+2, c+3 (mod 2^64); c' = c + 4 mod 2^64
     eq(other)            stream32_eq / stream64_eq / == against a second state
   every event also reports both parameters after the call (public getters), which must match. *)
EXTENDS ChaChaFn, Json, IOUtils, TLC
Rec == ndJsonDeserialize(IOEnv.TRACE)
N == Len(Rec)
VARIABLES l, st, bad
vars == <<l, st, bad>>
Starts == {i \in 1..N : Rec[i].k = 0}
Row3(c, s) == << <<c[1], c[2]>>, <<c[3], c[4]>>, <<s[1], s[2]>>, <<s[3], s[4]>> >>
NewState(key, nonce) ==
  LET n == Len(nonce)
      w0 == IF n = 12 THEN W32At(nonce, 0) ELSE <<0, 0>>
      s1 == W32At(nonce, n - 8)
      s2 == W32At(nonce, n - 4)
  IN [key |-> KeyWords(key), c |-> <<0, 0, w0[1], w0[2]>>, s |-> <<s1[1], s1[2], s2[1], s2[2]>>]
After(s, e) == e.p0 = s.c /\ e.p1 = s.s
Blk(s, c, dr) == BlockBytes(s.key, Row3(c, s.s), dr)
Inc(c, k) == WAdd(c, WOfInt(k, 4))
Step(s, e) ==
  CASE e.ev = "setp" -> LET t == IF e.p = 0 THEN [s EXCEPT !.c = e.val] ELSE [s EXCEPT !.s = e.val]
                        IN <<e.res = "ok" /\ After(t, e), t>>
    [] e.ev = "getp" -> <<e.res = "ok" /\ e.val = (IF e.p = 0 THEN s.c ELSE s.s) /\ After(s, e), s>>
    [] e.ev = "refill" -> LET t == [s EXCEPT !.c = Inc(s.c, 1)]
                          IN <<e.res = "ok" /\ e.out = Blk(s, s.c, e.dr) /\ After(t, e), t>>
    [] e.ev = "refill4" -> LET t == [s EXCEPT !.c = Inc(s.c, 4)]
                           IN << /\ e.res = "ok"
                                 /\ e.out = Blk(s, s.c, e.dr) \o Blk(s, Inc(s.c, 1), e.dr) \o Blk(s, Inc(s.c, 2), e.dr) \o Blk(s, Inc(s.c, 3), e.dr)
                                 /\ After(t, e), t >>
    [] e.ev = "eq" -> LET o == [NewState(e.okey, e.ononce) EXCEPT !.c = e.oc, !.s = e.os]
                          same64 == o.key = s.key /\ o.s = s.s
                          same32 == same64 /\ o.c[3] = s.c[3] /\ o.c[4] = s.c[4]
                      IN << /\ e.res = "ok" /\ e.eq64 = same64 /\ e.eq32 = same32
                            /\ e.same = (same64 /\ o.c = s.c)
                            /\ After(s, e), s >>
Init == \E i \in Starts : /\ l = i /\ st = NewState(Rec[i].key, Rec[i].nonce)
                           /\ bad = IF Rec[i].res = "ok" /\ After(NewState(Rec[i].key, Rec[i].nonce), Rec[i]) THEN FALSE ELSE PrintT(<<"REJECT", i>>)
Next == /\ ~bad /\ l < N /\ Rec[l + 1].k # 0
        /\ LET e == Rec[l + 1]
               r == Step(st, e)
           IN /\ l' = l + 1
              /\ st' = r[2]
              /\ bad' = IF r[1] THEN FALSE ELSE PrintT(<<"REJECT", l + 1>>)
Spec == Init /\ [][Next]_vars
=============================================================================
