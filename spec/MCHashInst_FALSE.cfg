CONSTANTS
  B = 2
  LAZY = FALSE
  MAXLEN = 5
  NINST = 2
INIT Init
NEXT Next
VIEW View
CHECK_DEADLOCK FALSE
INVARIANT StateIsFunctionOfMessage
PROPERTIES DigestRight Independent
