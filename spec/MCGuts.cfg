CONSTANTS
  W = 3
  KW = 1
  PAIRS = TRUE
INIT Init
NEXT Next
CHECK_DEADLOCK FALSE
INVARIANTS Refill4IsFourRefills CounterAdvances ParamRoundTrip Eq32Exact Eq64Exact EqMeansSameOutput
