#!/usr/bin/env python3
"""Confirm a sub-agent's seeded change in its scratch worktree:  seeded_verify.py <worktree>
 1. with the change: the demo command FAILS;  2. with the change and the demo removed: the workspace test suite PASSES;
 3. without the change: the demo command PASSES.   Writes <worktree>/seeded/verified.json."""
import json
import os
import shutil
import subprocess
import sys


def sh(cmd, cwd):
    p = subprocess.run(cmd, cwd=cwd, shell=True, capture_output=True, text=True, env=dict(os.environ, CARGO_BUILD_JOBS="6", CARGO_NET_OFFLINE="true"))
    return p.returncode, (p.stdout + p.stderr)[-3000:]


def new_files(patch):
    """paths a patch creates (they stay behind as untracked files after `git checkout -- .`)"""
    out, prev = [], None
    for ln in open(patch):
        if ln.startswith("--- "):
            prev = ln[4:].strip()
        elif ln.startswith("+++ ") and prev == "/dev/null":
            out.append(ln[4:].strip()[2:])
    return out


def main():
    wt = os.path.abspath(sys.argv[1])
    meta = json.load(open(os.path.join(wt, "seeded", "meta.json")))
    demo_cmd = meta["demo_command"]
    demo_loc = meta["demo_location"].split(" (")[0].split(" ")[0].strip()
    if not os.path.isabs(demo_loc):
        demo_loc = os.path.join(wt, demo_loc)
    res = {}
    # normalise the worktree: exactly seeded/patch.diff applied on a clean checkout, demo copied into place
    sh("git reset -q; git checkout -- .", wt)
    for f in new_files(os.path.join(wt, "seeded", "patch.diff")):
        if os.path.exists(os.path.join(wt, f)):
            os.remove(os.path.join(wt, f))
    sh("git apply seeded/patch.diff", wt)
    if not os.path.exists(demo_loc) and os.path.exists(os.path.join(wt, "seeded", "demo.rs")):
        shutil.copy(os.path.join(wt, "seeded", "demo.rs"), demo_loc)
    rc, out = sh("git diff --stat", wt)
    res["diff_stat"] = out.strip().splitlines()[-3:]
    rc1, out1 = sh(demo_cmd, wt)
    res["demo_with_change_fails"] = rc1 != 0
    # suite without the demo
    hidden = demo_loc + ".hidden"
    moved = False
    if os.path.exists(demo_loc):
        shutil.move(demo_loc, hidden)
        moved = True
    rc2, out2 = sh("cargo test --workspace --no-fail-fast --offline 2>&1 | grep -E '^test result|FAILED|^error' | sort | uniq -c", wt)
    res["suite_with_change"] = out2.strip().splitlines()[-8:]
    res["demo_hidden_for_suite"] = moved
    res["suite_with_change_passes"] = "FAILED" not in out2 and "error" not in out2 and "test result: ok" in out2
    if moved:
        shutil.move(hidden, demo_loc)
    # without the change
    sh("git apply -R seeded/patch.diff && git checkout -- .", wt)
    rc3, out3 = sh(demo_cmd, wt)
    res["demo_without_change_passes"] = rc3 == 0
    sh("git apply seeded/patch.diff", wt)
    res["confirmed"] = bool(res["demo_with_change_fails"] and res["suite_with_change_passes"] and res["demo_without_change_passes"])
    json.dump(res, open(os.path.join(wt, "seeded", "verified.json"), "w"), indent=1)
    print(json.dumps(res, indent=1))


if __name__ == "__main__":
    main()
