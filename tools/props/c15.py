"""C15: stream parameters round-trip, are isolated, and define stream equality."""
import vlib
from props import guts_common

LEVEL = "model_checking"


def run(c):
    guts_common.model_check(c, 3, 1, True, ["ParamRoundTrip", "Eq32Exact", "Eq64Exact", "EqMeansSameOutput"])
    if c.thorough:
        guts_common.model_check(c, 2, 2, True, ["ParamRoundTrip", "Eq32Exact", "Eq64Exact", "EqMeansSameOutput"])
    guts_common.run_guts(c, "c15")
    c.cov["rule"] = ("MCGuts: over ALL pairs of scaled states, get(set(v)) = v, the other parameter and the key are untouched, stream32_eq/stream64_eq hold exactly when key "
                     "and the stated words agree, and equal streams give equal output. Real code: set/get/refill sequences over boundary and random 64-bit values, states built "
                     "directly by ChaCha::new vs. by set_stream_param, and equality predicates on pairs differing in exactly one bit of one of the 12 key/nonce/counter words; "
                     "every call validated by TLC (TraceGuts.tla). evaluations = validated calls.")
    c.cov["exhaustive_small_model"] = True
    c.assumptions += ["sampled 64-bit values at the real word size"]
    return c.finish()
