"""C02: ChaCha output depends only on the absolute position (pattern P2)."""
import vlib
from props import stream_common

LEVEL = "model_checking"


def run(c):
    stream_common.run_stream(c, "C02")
    c.cov["rule"] = ("(1) TLC explores every history of Stream.tla at scaled constants (exhaustive: exhaustive_small_model=true); "
                     "(2) TLC explores Stream.tla at the real constants over landmark seek targets / request lengths and dumps the labelled graph; "
                     "every edge is replayed on Ietf and on a rotating 64-bit-counter type in release and debug builds, Buffer internals compared "
                     "with the model state after every call; (3) those recorded histories and seeded random histories (7 types, 7 seek argument types, "
                     "repo test histories and mirror images) are validated event by event by TLC against the ideal spec TraceStream.tla + ChaChaFn.tla. "
                     "evaluations = recorded calls validated; distinct = distinct call records (inputs+outputs).")
    c.cov["exhaustive_small_model"] = True
    c.assumptions += ["scaled constants (BLOCK=4, W=8/16) exhibit every abstract situation of the real constants; the real-constant graph is depth-bounded",
                      "ChaChaFn.tla is the keystream definition (published vectors checked on every run)"]
    return c.finish()
