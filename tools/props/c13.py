"""C13: data movement is lossless and consistently ordered on every backend (P1 x P3)."""
import vlib
from props import simd_common

LEVEL = "exploration"


def run(c):
    simd_common.run_simd(c, lambda e: e["op"] not in simd_common.C12_OPS)
    c.cov["rule"] = ("same driver as C12, data-movement operations: to_lanes/from_lanes/vec/vzip, insert/extract at every index, transpose4, to_scalars, storage reinterpretation between "
                     "32/64/128-bit views (vec128/256/512_storage), read_le/read_be/write_le/write_be on exact-size slices at offsets 0..15 inside a larger buffer (bytes around the slice "
                     "must stay untouched); byte-position operand patterns make every byte distinguishable so permutations are identified, not just checked. Oracle: SimdOps!Sem via TLC.")
    c.assumptions += ["operand values are sampled", "CPUs lacking a feature are simulated by the dispatch override"]
    return c.finish()
