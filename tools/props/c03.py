"""C03: every algorithm gives identical results on every SIMD backend and build configuration (P3 over P1)."""
import copy
import json
import os
import vlib
from props import simd_common

LEVEL = "model_checking"


def configs(c):
    # every rung of the compile-time (no-std) selection ladder is a configuration of its own: sse2, +ssse3, +sse4.1, +avx, +avx2
    cf = [("std-rel", f) for f in range(0, 6)] + [("nosimd-rel", 0), ("nostd-sse2", 0), ("nostd-avx2", 0), ("std-dbg", 1), ("std-dbg", 0)]
    if c.thorough:
        cf += [("std-dbg", 5), ("nosimd-dbg", 0), ("nostd-ssse3", 0), ("nostd-sse41", 0), ("nostd-avx", 0)]
    return cf


def rung_configs(c):
    """the middle rungs of the no-std ladder; in the quick tier they run the selection record, the vector operations and the
    ChaCha keystream events only (thorough: everything, through configs())"""
    return [] if c.thorough else [("nostd-ssse3", 0), ("nostd-sse41", 0), ("nostd-avx", 0)]


DRIVERS = [  # (name, harness args, trace module, kind)
    ("chacha-stream", ["c01"], "TraceC01", "stateless"),
    ("chacha-guts", ["c14"], "TraceGuts", "episodes"),
    ("blake", ["digests", "--family", "blake"], "TraceBlake", "stateless"),
    ("jh", ["digests", "--family", "jh"], "TraceJH", "stateless"),
    ("simd", ["simd"], "TraceSimd", "stateless"),
    # digests of very long messages (length counter fast-forwarded through hook H2, then crossed by real data)
    ("blake-long", ["c17", "--family", "blake"], "TraceCtrBlake", "stateless"),
    ("jh-long", ["c17", "--family", "jh"], "TraceCtrJH", "stateless"),
]
IGNORE = ("cfg", "k", "mach", "tag")


def content(e):
    return json.dumps({k: v for k, v in e.items() if k not in IGNORE}, sort_keys=True)


def cross_validate(c, cfgs, drivers, label="C03"):
    """Run `drivers` on identical seeded inputs under every configuration in `cfgs`; validate every DISTINCT outcome with the
    configuration-free specifications.  Returns (total events, mach events)."""
    wd = c.workdir()
    per = {d[0]: {} for d in drivers}     # driver -> content -> first event (with cfg)
    seen_cfg = {d[0]: {} for d in drivers}  # driver -> content -> set of cfgs
    machs = []
    total = 0
    for build, force in cfgs:
        binary = vlib.build(build)
        name = "%s/force=%d" % (build, force)
        for d in drivers:
            dname, dargs, module, kind = d[:4]
            trace = os.path.join(wd, "c03-%s.ndjson" % dname)
            args = dargs + ["--seed", str(c.seed), "--tier", "quick", "--cfg", name] + (["--force", str(force)] if force else [])
            rc, outp = vlib.run_harness_rc(binary, args, out=trace)
            if rc != 0:
                # the code under test crashed (signal / abort) in this configuration where others return values
                c.violation({"driver": dname, "cfg": name, "res": "crash"}, [{"driver": dname, "cfg": name, "rc": rc, "output": outp[-2000:]}],
                            "driver %s crashed (rc=%d) under configuration %s" % (dname, rc, name))
                continue
            recs = vlib.read_ndjson(trace)
            os.remove(trace)
            total += len(recs)
            if kind == "episodes":
                units = [("\n".join(content(e) for e in ep), ep) for ep in vlib.episodes(recs)]
            else:
                units = [(content(e), [e]) for e in recs if e["ev"] != "mach"]
                machs += [e for e in recs if e["ev"] == "mach"]
            for key, evs in units:
                for e in evs:
                    e["cfg"] = name
                per[dname].setdefault(key, evs)
                seen_cfg[dname].setdefault(key, set()).add(name)
    # validate every DISTINCT outcome once; an outcome that differs between configurations is rejected by the (configuration-free) spec
    for d in drivers:
        dname, dargs, module, kind = d[:4]
        denv = d[4] if len(d) > 4 else None
        units = list(per[dname].values())
        if kind == "episodes":
            trace = os.path.join(wd, "c03-%s-all.ndjson" % dname)
            vlib.write_ndjson(trace, [e for evs in units for e in evs])

            def canary(ep):
                for j, e in enumerate(ep):
                    if e["ev"] in ("refill", "refill4") and e["res"] == "ok":
                        cn = copy.deepcopy(ep[: j + 1])
                        cn[j]["out"][0] ^= 1
                        return cn
                return None
            vlib.validate_episodes(c, module, trace, lambda e, first: {"driver": dname, "ev": e["ev"], "cfg": e.get("cfg", first.get("cfg")), "res": e.get("res", "").split(":")[0]},
                                   canary, "%s %s" % (label, dname))
        else:
            recs = [evs[0] for evs in units]

            def mutate(e):
                for f in ("after", "out"):
                    if f in e and e[f]:
                        e[f][0] ^= 2
                        return
                for f in ("y", "z", "ys", "zs"):          # threefish events: ciphertext (enc mode) and decrypted block (inverse mode)
                    if f in e and e[f]:
                        e[f][0] ^= 2
            vlib.validate_stateless(c, module, recs, lambda e: {"driver": dname, "cfg": e.get("cfg"), "res": e.get("res", "").split(":")[0],
                                                                 "ty": e.get("ty"), "op": e.get("op"), "alg": e.get("alg"), "variant": e.get("variant")},
                                    mutate, "%s %s" % (label, dname), timeout=6000, workers=12, env=denv)
        c.cov.setdefault("distinct_outcomes_validated", {})[dname] = len(units)
        c.add_events([evs[-1] for evs in units], key=lambda e: content(e), sample=1)
    return total, machs


def run(c):
    wd = c.workdir()
    # the dispatch decision procedure, exhaustively
    r = vlib.run_tlc("Dispatch", workers=1, timeout=300, tag="dispatch")
    vlib.tlc_must_succeed(r, "Dispatch")
    if r["violated"]:
        raise vlib.ToolError("Dispatch.tla violates its own invariants (spec bug)")
    c.add_model(r, "Dispatch.tla: all build modes x macros x feature levels; Total (never unimplemented!), Safe (never selects a backend the CPU lacks), Best")
    for vec in ("VecChaCha", "VecBlake"):
        v = vlib.run_tlc(vec, workers=1, timeout=600, tag="vec")
        vlib.tlc_must_succeed(v, vec)
        if v["violated"]:
            raise vlib.ToolError("%s no longer reproduces the published vectors" % vec)
    total, machs = cross_validate(c, configs(c), DRIVERS)
    if rung_configs(c):
        t2, m2 = cross_validate(c, rung_configs(c), [d for d in DRIVERS if d[0] in ("chacha-stream", "simd")], label="C03 ladder rungs")
        total += t2
        machs += m2
    # which Machine ran: against Dispatch.tla
    trace = os.path.join(wd, "c03-mach.ndjson")
    uniq = list({json.dumps({k: v for k, v in e.items() if k != "cfg"}, sort_keys=True): e for e in machs}.values())
    vlib.write_ndjson(trace, uniq)
    rej, r2 = vlib.validate_trace("TraceDispatch", trace, workers=1, timeout=600, expect_states=2 * len(uniq))
    for l, _ in rej:
        e = uniq[l - 1]
        c.violation({"driver": "dispatch", "cfg": e["cfg"], "res": "wrong-machine"}, [e], "dispatch macros selected %s / %s / %s under %s, Dispatch.tla says otherwise"
                    % (e["dispatch"], e["light128"], e["light256"], e["cfg"]))
    c.cov["evaluations"] = total           # every recorded event of every configuration took part in the comparison
    c.cov["dispatch_events"] = len(uniq)
    c.cov["traces_validated_against_impl"] = len(configs(c)) * len(DRIVERS)
    c.cov["configurations"] = ["%s/force=%d" % x for x in configs(c)]
    c.cov["samples"] = c.cov["samples"][:6] + [vlib.shorten(uniq[0])]
    c.cov["rule"] = ("Dispatch.tla (decision procedure of the three macros) is checked exhaustively by TLC; recorded `mach` events (type_name of the selected Machine in each build / under each override) "
                     "must equal its choice. The ChaCha stream drivers (wide+narrow), guts refill/refill4, BLAKE-224/256/384/512 and JH digests and every vector operation are executed on identical seeded inputs "
                     "under each configuration: run-time dispatch forced to SSE2/SSSE3/SSE4.1/AVX/AVX2 (hook H1), portable backend (no_simd), no-std compile-time arms, debug and release. "
                     "The specifications contain no configuration variable: every DISTINCT (input, outcome) pair is validated by TLC, so an outcome that differs in one configuration, a panic or a crash is rejected. "
                     "evaluations = recorded events compared; distinct = distinct (input, outcome) pairs validated.")
    c.assumptions += ["CPUs lacking a feature are simulated by the dispatch override (AVX and SSE4.1 are the same Machine type)", "inputs sampled as in C01/C04/C06/C12/C14"]
    return c.finish()
