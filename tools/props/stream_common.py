"""Shared machinery of C02 and C11: Stream.tla model checks, graph -> replay scripts, trace validation."""
import copy
import os
import re
import time
import vlib
from graphwalk import Graph, limbs_to_int

# 64-bit-counter types for graph replay; the 8-round types appear more often because TLC recomputes every keystream block
C64_TYPES = ["ChaCha8", "XChaCha8", "ChaCha12", "ChaCha8", "XChaCha8", "ChaCha20", "ChaCha8", "XChaCha12", "XChaCha8", "XChaCha20"]
SEEK_TYPES = [("u8", 255), ("u16", 65535), ("i32", 2**31 - 1), ("u32", 2**32 - 1), ("u64", 2**64 - 1), ("usize", 2**64 - 1), ("u128", 2**128 - 1)]
POS_TYPES = ["u128", "u64", "usize", "u32", "i32", "u16", "u8"]


def model_check_small(c, w=8, maxn=14):
    cfg = os.path.join(c.workdir(), "MCStreamSmall.cfg")
    txt = open(os.path.join(vlib.SPEC, "MCStreamSmall.cfg")).read()
    txt = re.sub(r"W = \d+", "W = %d" % w, txt)
    txt = re.sub(r"MAXN = \d+", "MAXN = %d" % maxn, txt)
    open(cfg, "w").write(txt)
    r = vlib.run_tlc("MCStreamSmall", cfg=cfg, workers=8, timeout=3000, tag="small")
    vlib.tlc_must_succeed(r, "MCStreamSmall")
    if r["violated"]:
        raise vlib.ToolError("the repaired stream MODEL violates its own properties (spec bug):\n" + vlib.tail(r["out"]))
    c.add_model(r, "MCStreamSmall BLOCK=4 BUFBLOCKS=2 W=%d MAXN=%d: all histories over seek/apply/current_pos, 4 invariants + 5 action properties" % (w, maxn))
    return r


def closed_form_equivalence(c):
    """StreamCF (closed forms, the Apalache model) == Stream.tla (section by section) in every reachable state, scaled constants."""
    import shutil
    wd = c.workdir()
    src = open(os.path.join(vlib.SPEC, "apalache", "StreamCF.tla")).read()
    small = src.replace("MODULE StreamCF ", "MODULE StreamCFSmall ").replace("\nB == 64\n", "\nB == 4\n").replace("\nBUFSZ == 256\n", "\nBUFSZ == 8\n").replace("\nW32 == 4294967296\n", "\nW32 == 8\n")
    if small.count("B == 4") != 1 or small.count("W32 == 8") != 1:
        raise vlib.ToolError("could not derive StreamCFSmall from apalache/StreamCF.tla")
    open(os.path.join(wd, "StreamCFSmall.tla"), "w").write(small)
    shutil.copy(os.path.join(vlib.SPEC, "MCStreamCFEq.tla"), wd)
    shutil.copy(os.path.join(vlib.SPEC, "MCStreamCFEq.cfg"), wd)
    r = vlib.run_tlc(os.path.join(wd, "MCStreamCFEq"), cfg=os.path.join(wd, "MCStreamCFEq.cfg"), workers=8, timeout=3000, tag="cfeq")
    vlib.tlc_must_succeed(r, "MCStreamCFEq")
    if r["violated"]:
        raise vlib.ToolError("closed-form model StreamCF differs from Stream.tla (spec bug):\n" + vlib.tail(r["out"]))
    c.add_model(r, "MCStreamCFEq: closed-form model (Apalache's StreamCF) equals Stream.tla's ApplyImpl / Seek / PosImpl in every reachable state (BLOCK=4, W=8)")


def apalache_inductive(c, full):
    """Inductive-invariant check of the closed-form stream model at the REAL constants (2^32, 2^64, BLOCK 64), unbounded histories.
    Seven obligations (Init => IndInv; Seek and Apply steps per variant, Apply split by "block lazily pending or not"), each a few
    seconds since the model avoids division by 2^64."""
    import subprocess
    import time
    jobs = [("Init", ["--init=Init", "--inv=Inv", "--length=0"]),
            ("IetfSeek", ["--init=IndInitIetf", "--next=NextSeek", "--inv=Inv", "--length=1"]),
            ("C64Seek", ["--init=IndInitC64", "--next=NextSeek", "--inv=Inv", "--length=1"]),
            ("IetfApplyLazy", ["--init=IndInitIetfLazy", "--next=NextApply", "--inv=Inv", "--length=1"]),
            ("IetfApplyBuf", ["--init=IndInitIetfBuf", "--next=NextApply", "--inv=Inv", "--length=1"]),
            ("C64ApplyLazy", ["--init=IndInitC64Lazy", "--next=NextApply", "--inv=Inv", "--length=1"]),
            ("C64ApplyBuf", ["--init=IndInitC64Buf", "--next=NextApply", "--inv=Inv", "--length=1"])]
    wd = c.workdir()
    procs = []
    t0 = time.time()
    for name, args in jobs:
        log = open(os.path.join(wd, "apalache-%s.log" % name), "w")
        p = subprocess.Popen(["timeout", "900", "apalache-mc", "check"] + args + ["--out-dir=" + os.path.join(wd, "apalache-out", name), "StreamCF.tla"],
                             cwd=os.path.join(vlib.SPEC, "apalache"), stdout=log, stderr=subprocess.STDOUT)
        procs.append((name, p, log))
    res = {}
    for name, p, log in procs:
        p.wait()
        log.close()
        out = open(log.name).read()
        if "EXITCODE: OK" in out and "The outcome is: NoError" in out:
            res[name] = "discharged"
        elif p.returncode == 124 or "timeout" in out.lower() and "The outcome is" not in out:
            # SMT solving time is erratic under load; an undischarged obligation is reported, it does not fail the check
            res[name] = "not discharged (solver time limit)"
        elif "The outcome is: Error" in out or "violated" in out:
            raise vlib.ToolError("Apalache found a counterexample to induction in %s (model bug):\n%s" % (name, vlib.tail(out, 15)))
        else:
            res[name] = "not discharged (apalache rc=%s)" % p.returncode
    import shutil
    shutil.rmtree(os.path.join(wd, "apalache-out"), ignore_errors=True)
    c.cov["apalache_inductive_invariant"] = {"obligations": res, "wall_s": round(time.time() - t0, 1),
                                             "meaning": "IndInv of apalache/StreamCF.tla is inductive at the real constants: exhaustion exact (fails iff pos+n > keystream length), try_current_pos formula = position, IETF nonce word intact - for unbounded histories and any request length < 2^64"}


def model_graph_real(c, depth, tier):
    wd = c.workdir()
    cfg = os.path.join(wd, "MCStreamReal.cfg")
    txt = open(os.path.join(vlib.SPEC, "MCStreamReal.cfg")).read()
    txt = re.sub(r"DEPTH = \d+", "DEPTH = %d" % depth, txt)
    txt = re.sub(r'TIER = "\w+"', 'TIER = "%s"' % tier, txt)
    txt = re.sub(r"SEEDV = \d+", "SEEDV = %d" % (c.seed % 100000), txt)
    open(cfg, "w").write(txt)
    dump = os.path.join(wd, "sreal")
    r = vlib.run_tlc("MCStreamReal", cfg=cfg, workers=1, timeout=3000, extra=["-dump", "dot,actionlabels", dump], tag="real")
    vlib.tlc_must_succeed(r, "MCStreamReal")
    if r["violated"]:
        raise vlib.ToolError("the repaired stream MODEL at real constants violates its own properties (spec bug):\n" + vlib.tail(r["out"]))
    c.add_model(r, "MCStreamReal BLOCK=64 2^32/2^64 counters, landmark alphabets (%s), depth %d" % (tier, depth))
    return Graph(dump + ".dot")


def scripts_from_graph(g, seed, maxlen=40, every=1):
    """Edge-covering walks -> harness script text + per-step expected internals (from the model states).
    every = k keeps every k-th walk only (the quick tier replays a third of the walks in the debug build)."""
    walks = g.split_after_self_loops(g.covering_walks(maxlen=maxlen))
    walks = walks[::every]
    lines, expect = [], []   # expect[i] = dict for the i-th emitted event
    rot = seed
    for wi, (init, walk) in enumerate(walks):
        variant = g.field(init, "variant").strip('"')
        nonce0 = limbs_to_int(g.field(init, "nonce0"))
        rot += 1
        if variant == "ietf":
            vname, nl = "Ietf", 12
        else:
            vname = C64_TYPES[rot % len(C64_TYPES)]
            nl = 24 if vname.startswith("X") else 8
        key = bytes(((seed * 31 + wi * 7 + i * 13) & 0xff) for i in range(32))
        nonce = bytearray(((seed * 17 + wi * 3 + i * 29 + 5) & 0xff) for i in range(nl))
        if variant == "ietf":
            nonce[0:4] = nonce0.to_bytes(4, "little")
        lines.append("new %s %s %s graph" % (vname, key.hex(), bytes(nonce).hex()))
        expect.append(node_state(g, init))
        for ei in walk:
            src, dst, label = g.edges[ei]
            rot += 1
            if rot % 5 == 0:
                lines.append("clone")      # continue on a copy of the instance (no event: a copy must behave like the original)
            m = re.match(r"(\w+)(?:\((.*)\))?$", label)
            act, arg = m.group(1), m.group(2)
            if act == "DoSeekRel":
                p = limbs_to_int(g.field(src, "pos")) - int(arg)
                fits = [t for t, mx in SEEK_TYPES if p <= mx]
                lines.append("seek %s 0 %d" % (fits[rot % len(fits)], p))
            elif act == "DoSeek":
                p = limbs_to_int(arg)
                fits = [t for t, mx in SEEK_TYPES if p <= mx]
                lines.append("seek %s 0 %d" % (fits[rot % len(fits)], p))
            elif act == "DoSeekBad":
                if rot % 2:
                    lines.append("seek i32 1 %d" % (1 + rot % 999))
                else:
                    lines.append("seek u128 0 %d" % (2**64 + rot % 4097))
            elif act == "DoApply":
                lines.append("apply %d" % int(arg))
            elif act == "DoPos":
                lines.append("pos %s" % POS_TYPES[rot % len(POS_TYPES)])
            else:
                raise vlib.ToolError("unknown edge label " + label)
            expect.append(node_state(g, dst))
        # probe suffix: from whatever state the walk ended in, a fresh seek must still give the keystream of the absolute
        # position (makes persistent hidden-state corruption - e.g. a damaged nonce/counter word - observable); not part of
        # the graph, so no model state is expected for these two records
        if rot % 2 == 0:
            lines.append("clone")
        probe = [0, 64 * 3 + 5, 2**38 - 130, 64][rot % 4]
        endpos = limbs_to_int(g.field(g.edges[walk[-1]][1] if walk else init, "pos"))
        nprobe = 0
        back = [1, 17, 64, 40][rot % 4]
        if back <= endpos <= 2**64 - 1 + back:
            # rewind into the data just produced and read it again: a block served from a buffer must still be the right block
            lines.append("seek u64 0 %d" % (endpos - back))
            lines.append("apply %d" % [3, 70, 64, 1][rot % 4])
            nprobe += 2
        lines.append("pos u128")                                   # then without any seek: a seek may repair damaged bookkeeping
        lines.append("apply %d" % [1, 65, 3, 64][rot % 4])
        lines.append("seek u64 0 %d" % probe)
        lines.append("apply %d" % [70, 130, 1, 64][rot % 4])
        expect += [None] * (nprobe + 4)
    return "\n".join(lines) + "\n", expect, walks


def node_state(g, n):
    return {"have": int(g.field(n, "have")), "len": limbs_to_int(g.field(n, "len")) % 2**64, "fresh": g.field(n, "fresh") == "TRUE",
            "p0": limbs_to_int(g.field(n, "ctr")) % 2**64}


def drift(recs, expect):
    """Compare hook-free introspected internals with the model's states: MODEL-DRIFT, never a violation."""
    diffs = []
    for i, (r, e) in enumerate(zip(recs, expect)):
        st = r.get("st")
        if e is None or not st or r.get("res", "ok").startswith("panic"):
            continue
        got = {"have": st["have"], "len": sum(x << (16 * j) for j, x in enumerate(st["len"])), "fresh": st["fresh"],
               "p0": sum(x << (16 * j) for j, x in enumerate(st["p0"]))}
        if got != e:
            diffs.append((i, got, e))
    return diffs


def describe(e, variant, build):
    d = {"ev": e["ev"], "variant": variant, "res": e.get("res", "").split(":")[0], "build": build}
    if e["ev"] in ("seek", "pos"):
        d["ty"] = e["ty"]
    return d


def _canary(ep):
    for j, e in enumerate(ep):
        if e["ev"] == "apply" and e["res"] == "ok" and e["n"] > 0:
            can = copy.deepcopy(ep[: j + 1])
            can[j]["after"][0] ^= 1
            return can
    return None


def validate_histories(c, trace, build, label, workers=12):
    """TLC-validate a recorded history file against the ideal stream spec; report rejects."""
    recs, eps, r, _ = vlib.validate_episodes(c, "TraceStream", trace, lambda e, first: describe(e, first["variant"], build), _canary, label, workers=workers)
    return recs, eps, r


def run_stream(c, focus):
    wd = c.workdir()
    v = vlib.run_tlc("VecChaCha", workers=1, timeout=300, tag="vec")
    vlib.tlc_must_succeed(v, "VecChaCha")
    if v["violated"]:
        raise vlib.ToolError("ChaChaFn no longer reproduces the published vectors")
    # (c) design level: all histories of the scaled machine
    if c.thorough:
        model_check_small(c, w=8, maxn=14)
        model_check_small(c, w=16, maxn=10)
    else:
        model_check_small(c, w=8, maxn=14)
    # (c') closed forms: same as Stream.tla at scaled constants (TLC), inductive at the real constants (Apalache)
    closed_form_equivalence(c)
    apalache_inductive(c, full=c.thorough)
    # (d) real constants: graph -> every edge replayed on the real code
    if focus == "C11":
        # thorough: the wide limit alphabets to depth 3 and the quick ones to depth 4 (depth 4 x wide is > 2 M calls per build)
        plans = [(3, "c11t"), (4, "c11")] if c.thorough else [(3, "c11")]
    else:
        # depth 4 over the thorough alphabets is 3.2 M calls per build (TLC needs hours to validate them): thorough takes the
        # wide alphabets to depth 3 and the quick alphabets to depth 4 instead
        plans = [(3, "thorough"), (4, "quick")] if c.thorough else [(3, "quick")]
    graphs = []
    for gi, (depth, alpha) in enumerate(plans):
        g = model_graph_real(c, depth, alpha)
        script, expect, walks = scripts_from_graph(g, c.seed)
        spath = os.path.join(wd, "graph%d.script" % gi)
        open(spath, "w").write(script)
        script_d, expect_d, _ = scripts_from_graph(g, c.seed, every=3)
        spath_d = os.path.join(wd, "graph%d-dbg.script" % gi)
        open(spath_d, "w").write(script_d)
        graphs.append((spath, expect, spath_d, expect_d))
        c.cov["graph_edges"] = c.cov.get("graph_edges", 0) + len(g.edges)
        c.cov["graph_states"] = c.cov.get("graph_states", 0) + len(g.nodes)
        c.cov["replay_walks"] = c.cov.get("replay_walks", 0) + len(walks)
        del g
    c.cov["graph_plans"] = ["depth %d alphabet %s" % p for p in plans]
    traces = 0
    builds = ["std-rel", "std-dbg"]
    drift_total = 0
    for b in builds:
        binary = vlib.build(b)
        for gi, (spath, expect, spath_d, expect_d) in enumerate(graphs):
            trace = os.path.join(wd, "graph%d-%s.ndjson" % (gi, b))
            spath_b, expect_b = (spath_d, expect_d) if b == "std-dbg" else (spath, expect)
            vlib.run_harness(binary, ["stream-script", "--script", spath_b, "--seed", str(c.seed)], out=trace)
            nrec = 0
            for shard, first, cnt in vlib.split_trace(trace):
                recs0 = vlib.read_ndjson(shard)
                dr = drift(recs0, expect_b[first:first + cnt])
                drift_total += len(dr)
                for i, got, want in dr[:5]:
                    vlib.log("MODEL-DRIFT (%s) event %d: code %s model %s" % (b, first + i, got, want))
                t0 = time.time()
                recs, eps, r = validate_histories(c, shard, b, "graph replay (%s)" % b)
                vlib.log("[shard] %s graph%d records %d..%d validated in %.0fs" % (b, gi, first, first + cnt, time.time() - t0))
                traces += len(eps)
                nrec += cnt
                c.add_events([e for e in recs if e["ev"] != "new"], key=lambda e: {k: v for k, v in e.items() if k not in ("st", "k")}, sample=1)
                os.remove(shard)
                del recs0, recs, eps
            os.remove(trace)
            if nrec != len(expect_b):
                raise vlib.ToolError("script produced %d events, expected %d" % (nrec, len(expect_b)))
        # (e) random and test-suite-derived histories
        trace = os.path.join(wd, "rand-%s.ndjson" % b)
        vlib.run_harness(binary, ["stream-rand", "--seed", str(c.seed), "--tier", c.tier], out=trace)
        for shard, first, cnt in vlib.split_trace(trace):
            t0 = time.time()
            recs, eps, r = validate_histories(c, shard, b, "random history (%s)" % b)
            vlib.log("[shard] %s random histories records %d..%d validated in %.0fs" % (b, first, first + cnt, time.time() - t0))
            traces += len(eps)
            c.add_events([e for e in recs if e["ev"] != "new"], key=lambda e: {k: v for k, v in e.items() if k not in ("st", "k")}, sample=1)
            os.remove(shard)
            del recs, eps
        if b == "std-rel":
            # one apply call over more than 2^32 bytes against the function specification and against the same stream in pieces
            trace = os.path.join(wd, "big-%s.ndjson" % b)
            vlib.run_harness(binary, ["stream-big", "--seed", str(c.seed), "--tier", c.tier], out=trace, timeout=3000)
            recs = vlib.read_ndjson(trace)
            os.remove(trace)

            def mutate_big(e):
                if e["ev"] == "ks":
                    e["after"][len(e["after"]) // 2] ^= 4
                else:
                    e["pos_after"][2] ^= 1
            vlib.validate_stateless(c, "TraceC01", recs, lambda e: {"ev": e["ev"], "variant": e["variant"], "tag": e["tag"], "res": e["res"].split(":")[0], "build": b},
                                    mutate_big, "one apply call > 2^32 bytes (%s)" % b, workers=8)
            c.add_events(recs, key=lambda e: {k: v for k, v in e.items() if k != "k"}, sample=1)
            c.cov["one_call_4GiB_events"] = len(recs)
        if focus == "C11":
            trace = os.path.join(wd, "end64-%s.ndjson" % b)
            vlib.run_harness(binary, ["stream-end64", "--seed", str(c.seed), "--tier", c.tier], out=trace)
            recs, eps, r = validate_histories(c, trace, b, "2^64-block end (%s)" % b)
            traces += len(eps)
            c.add_events([e for e in recs if e["ev"] != "new"], key=lambda e: {k: v for k, v in e.items() if k not in ("st", "k")}, sample=1)
    c.cov["traces_validated_against_impl"] = traces
    c.cov["model_drift_events"] = drift_total
    c.cov["canary_rejected"] = True
    if drift_total:
        c.notes.append("MODEL-DRIFT: %d events where Buffer internals differ from Stream.tla's state (not a violation; update the model)" % drift_total)
    return traces
