"""C04: BLAKE-224/256/384/512 digests conform to the BLAKE specification (P1)."""
import vlib
from props import digest_common

LEVEL = "exploration"


def run(c):
    builds = [("std-rel", 0), ("std-rel", 1), ("nosimd-rel", 0)] + ([("std-dbg", 0), ("std-rel", 2), ("std-rel", 4), ("nostd-sse2", 0), ("nostd-avx2", 0)] if c.thorough else [])
    digest_common.run_digests(c, "blake", "TraceBlake", "VecBlake", builds, pin=(["Blake224", "Blake256", "Blake384", "Blake512"], set()))
    c.cov["rule"] = ("one-shot digests of Blake224/256/384/512 for message lengths 0..2*block+17 (0..4*block+17, three passes with rotating content kinds in thorough; in quick all lengths around the 55/56 and 111/112 one-vs-two final "
                     "block boundaries, block multiples, plus a rotating residue subset) with position-pattern / constant / random content, and longer random messages, on the "
                     "AVX2, forced-SSE2 and portable backends; TLC recomputes each digest with Blake.tla (G, sigma, pi constants, IVs, counter excluding padding and zero for a "
                     "padding-only block, 10*1 padding with marker bit). Blake.tla is pinned by the submission vectors (VecBlake.tla) and the repository's published KAT file.")
    c.assumptions += ["messages sampled (every residue class in thorough)", "Blake.tla transcribes the BLAKE submission correctly (published vectors on every run)"]
    return c.finish()
