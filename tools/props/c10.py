"""C10: Threefish decryption is the exact inverse of encryption (P1)."""
import vlib
from props import tf_common

LEVEL = "exploration"


def run(c):
    tf_common.run_tf(c, "inv")
    c.cov["rule"] = ("for every sampled (key, tweak, block) of each size, with and without no_unroll: D(E(x)) = x and E(D(x)) = x on the real code, and D(x) equals Threefish.tla!Decrypt, "
                     "an inverse written independently of Encrypt (un-permute, inverse MIX, subtract subkeys); TLC evaluates it. distinct = distinct (size,key,tweak,block).")
    c.assumptions += ["inputs sampled, not exhaustive"]
    return c.finish()
