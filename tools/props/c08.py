"""C08: incremental hashing is invariant under chunking, cloning and reset (P2)."""
import copy
import os
import re
import vlib
from graphwalk import Graph

LEVEL = "model_checking"
CLASSES = [  # (block size, lazy flush, [(alg, n)])
    (64, False, [("Blake224", 0), ("Blake256", 0), ("Groestl224", 0), ("Groestl256", 0), ("Jh224", 0), ("Jh256", 0), ("Jh384", 0), ("Jh512", 0)]),
    (128, False, [("Blake384", 0), ("Blake512", 0), ("Groestl384", 0), ("Groestl512", 0)]),
    (32, True, [("Skein256", 32)]),
    (64, True, [("Skein512", 64)]),
    (128, True, [("Skein1024", 128)]),
]


def mc(c, module, cfgtext, what, extra=None, workers=8):
    cfg = os.path.join(c.workdir(), module + "-%d.cfg" % len(c.cov.get("models", [])))
    open(cfg, "w").write(cfgtext)
    r = vlib.run_tlc(module, cfg=cfg, workers=workers, timeout=3000, extra=extra, tag=module)
    vlib.tlc_must_succeed(r, module)
    if r["violated"]:
        raise vlib.ToolError("the MODEL %s violates its own properties (spec bug):\n%s" % (module, vlib.tail(r["out"])))
    c.add_model(r, what)
    return r


def small_models(c):
    for kind, foot in [("blake", 3), ("groestl", 2), ("jh", 2), ("skein", 0)]:
        maxlen, maxpiece = (40, 20) if c.thorough else (20, 14)
        mc(c, "HashBuf", "CONSTANTS\n B = 6\n FOOT = %d\n KIND = \"%s\"\n CW = 8\n MAXLEN = %d\n MAXPIECE = %d\nINIT Init\nNEXT Next\nCHECK_DEADLOCK FALSE\nINVARIANTS Coherent CounterExact FinalRight\n"
           % (foot, kind, maxlen, maxpiece), "HashBuf KIND=%s B=6 CW=8 MAXLEN=%d: every partition into update calls; Coherent, CounterExact, FinalRight" % (kind, maxlen))
    # the same model at the REAL block and footer sizes (counter word wide enough not to wrap): every length up to 2B+20, every partition
    for kind, b, foot in [("blake", 64, 9), ("blake", 128, 17), ("groestl", 64, 8), ("groestl", 128, 8), ("jh", 64, 8), ("skein", 32, 0), ("skein", 64, 0), ("skein", 128, 0)]:
        mp = (2 * b + 1) if c.thorough else (b + 2)
        mc(c, "HashBuf", "CONSTANTS\n B = %d\n FOOT = %d\n KIND = \"%s\"\n CW = 1048576\n MAXLEN = %d\n MAXPIECE = %d\nINIT Init\nNEXT Next\nCHECK_DEADLOCK FALSE\nINVARIANTS Coherent CounterExact FinalRight\n"
           % (b, foot, kind, 2 * b + 20, mp), "HashBuf KIND=%s at the real block size B=%d, footer %d: all lengths 0..%d, pieces 0..%d" % (kind, b, foot, 2 * b + 20, mp), workers=4)
    for lazy in ("FALSE", "TRUE"):
        b, maxlen, ninst = (3, 7, 2) if c.thorough else (2, 5, 2)
        mc(c, "HashInst", "CONSTANTS\n B = %d\n LAZY = %s\n MAXLEN = %d\n NINST = %d\nINIT Init\nNEXT Next\nVIEW View\nCHECK_DEADLOCK FALSE\nINVARIANT StateIsFunctionOfMessage\nPROPERTIES DigestRight Independent\n"
           % (b, lazy, maxlen, ninst), "HashInst B=%d LAZY=%s MAXLEN=%d NINST=%d: all histories over update(piece)/clone/reset/finalize_reset/finalize on 2 instances, 2-letter alphabet" % (b, lazy, maxlen, ninst))


def graph_scripts(c, b, lazy, algs, depth):
    wd = c.workdir()
    dump = os.path.join(wd, "hreal-%d-%s" % (b, lazy))
    mc(c, "MCHashReal", "CONSTANTS\n B = %d\n LAZY = %s\n DEPTH = %d\n TIER = \"%s\"\nINIT Init\nNEXT Next\nVIEW View\nCHECK_DEADLOCK FALSE\n"
       % (b, "TRUE" if lazy else "FALSE", depth, c.tier), "MCHashReal B=%d LAZY=%s depth %d (%s piece alphabet): labelled graph for replay" % (b, lazy, depth, c.tier),
       extra=["-dump", "dot,actionlabels", dump], workers=1)
    g = Graph(dump + ".dot")
    allwalks = g.covering_walks(maxlen=30)
    return _script(g, allwalks, algs, b), _script(g, allwalks[::3], algs, b), len(g.edges), len(allwalks)


def _script(g, walks, algs, b):
    lines = []
    for ai, (alg, n) in enumerate(algs):
        for init, walk in walks:
            lines.append("new %s %d graph" % (alg, n))
            for ei in walk:
                m = re.match(r"(\w+)\((.*)\)$", g.edges[ei][2])
                act, args = m.group(1), [a.strip() for a in m.group(2).split(",")]
                if act == "DoUpd":
                    lines.append("upd %s %s" % (args[0], args[1]))
                elif act == "DoClone":
                    lines.append("clone %s %s" % (args[0], args[1]))
                else:
                    lines.append("%s %s" % ({"DoReset": "reset", "DoFinReset": "finreset", "DoFin": "fin"}[act], args[0]))
            # probe: whatever state the walk ended in, every live instance must still give the digest of its ghost message,
            # and behave like a new one afterwards
            endnode = g.edges[walk[-1]][1] if walk else init
            ftxt = g.field(endnode, "len")
            if ":>" in ftxt:
                lens = {int(a): int(b_) for a, b_ in re.findall(r"(\d+) :> (-?\d+)", ftxt)}
            else:
                lens = dict(enumerate((int(x) for x in re.findall(r"-?\d+", ftxt)), start=1))
            for i, ln in sorted(lens.items()):
                if ln >= 0:
                    lines.append("finreset %d" % i)
                    lines.append("upd %d %d" % (i, [1, b, b + 1][(ai + i) % 3]))
                    lines.append("finreset %d" % i)
    return "\n".join(lines) + "\n"


def _canary(ep):
    for j, e in enumerate(ep):
        if e["ev"] in ("fin", "finreset") and e["res"] == "ok" and j >= 2:
            can = copy.deepcopy(ep[: j + 1])
            can[j]["out"][0] ^= 1
            return can
    return None


def _describe(build):
    return lambda e, first: {"ev": e["ev"], "alg": first.get("alg"), "res": e.get("res", "").split(":")[0], "build": build}


def run(c):
    wd = c.workdir()
    small_models(c)
    depth = 4 if c.thorough else 3
    edges = walks = 0
    script = ""
    script_dbg = ""
    for b, lazy, algs in CLASSES:
        s, s3, ne, nw = graph_scripts(c, b, lazy, algs, depth)
        script += s
        edges += ne * len(algs)
        walks += nw * len(algs)
        # the debug build replays a third of the walks
        script_dbg += s3
    spath = os.path.join(wd, "hash.script")
    open(spath, "w").write(script)
    spath_dbg = os.path.join(wd, "hash-dbg.script")
    open(spath_dbg, "w").write(script_dbg)
    c.cov["graph_edges_replayed"] = edges
    c.cov["replay_walks"] = walks
    traces = 0
    for build in ["std-rel", "std-dbg"]:
        binary = vlib.build(build)
        for driver, args in (("hash-script", ["--script", spath_dbg if build == "std-dbg" else spath]), ("hash-rand", ["--tier", c.tier])):
            trace = os.path.join(wd, "%s-%s.ndjson" % (driver, build))
            vlib.run_harness(binary, [driver, "--seed", str(c.seed)] + args, out=trace)
            # large (thorough) traces are validated in shards cut at episode boundaries
            for shard, first, cnt in vlib.split_trace(trace, max_events=40000):
                recs, eps, r, _ = vlib.validate_episodes(c, "TraceHashBuf", shard, _describe(build), _canary, "%s (%s)" % (driver, build), workers=12, timeout=6000)
                if "REFMISMATCH" in r["out"]:
                    raise vlib.ToolError("harness reference bookkeeping disagrees with the monitor's ghost message (harness bug)")
                traces += len(eps)
                c.add_events([e for e in recs if e["ev"] in ("upd", "clone", "reset", "fin", "finreset")], key=lambda e: {k: v for k, v in e.items() if k != "k"}, sample=1)
                os.remove(shard)
                del recs, eps
            os.remove(trace)
    c.cov["traces_validated_against_impl"] = traces
    c.cov["exhaustive_small_model"] = True
    c.cov["rule"] = ("(1) TLC checks HashBuf.tla for the four hasher kinds (eager/lazy flush, per-kind counter and finalisation case split vs. an independently written padding rule) over every "
                     "partition of every message length into update calls at a scaled block size, and HashInst.tla (two instances, clone/reset/finalize_reset/finalize, 2-letter contents): state is a "
                     "function of the ghost message, digests equal OneShot(ghost message), instances are independent. (2) MCHashReal at the real block sizes 32/64/128 gives a labelled graph over "
                     "(buffer fill x processed blocks) x {update(piece length class), clone, reset, finalize_reset, finalize}; every edge is replayed on each of the 15 hash types (release+debug). "
                     "(3) these and seeded random histories (up to 4 live instances) are validated by TLC with TraceHashBuf.tla, which tracks each instance's ghost message and requires every digest "
                     "to equal the one-shot digest of that message (BLAKE additionally recomputed from Blake.tla). evaluations = validated calls.")
    c.assumptions += ["one-shot digests are tied to the hash specifications by C04-C07", "scaled block size in the exhaustive models; depth-bounded real-size graph"]
    return c.finish()
