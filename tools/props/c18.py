"""C18: results are unaffected by concurrent first use and by interleaving of instances (P2 small; thin binding)."""
import copy
import json
import os
import vlib

LEVEL = "model_checking"
FAMILY = {"Blake": "TraceBlake", "Groestl": "TraceGroestl", "Jh": "TraceJH", "Skein": "TraceSkein"}


def run(c):
    wd = c.workdir()
    # (1) protocol model: Once cells + racy feature cache, all interleavings
    threads = "{1, 2, 3}" if c.thorough else "{1, 2}"
    cfg = os.path.join(wd, "Concurrency.cfg")
    open(cfg, "w").write("CONSTANTS\n Threads = %s\n Cells = {\"tf512\", \"of512\", \"init512\"}\n K = 2\n Best = \"aes\"\nSPECIFICATION Spec\nCHECK_DEADLOCK FALSE\n"
                         "INVARIANTS InvokeSeesInitialised OnceExclusive ResultsScheduleFree NoStuck\nPROPERTY Terminates\n" % threads)
    r = vlib.run_tlc("Concurrency", cfg=cfg, workers=8, timeout=3000, tag="conc")
    vlib.tlc_must_succeed(r, "Concurrency")
    if r["violated"]:
        raise vlib.ToolError("Concurrency.tla violates its own properties (spec bug):\n" + vlib.tail(r["out"]))
    c.add_model(r, "Concurrency.tla Threads=%s x 2 calls x 3 once-cells: every Invoke sees an initialised pointer, initialiser runs exclusively, results schedule-free, termination under weak fairness" % threads)
    # (2a) schedules drawn by TLC from the composition model System.tla (spec -> impl), replayed on real instances
    nsched = 400 if c.thorough else 25
    cfg2 = os.path.join(wd, "System.cfg")
    open(cfg2, "w").write("CONSTANTS\n NC = 3\n NH = 5\n DEPTH = %d\nSPECIFICATION Spec\nCHECK_DEADLOCK FALSE\nINVARIANT Emit\nPROPERTY Independent\n" % (60 if c.thorough else 40))
    rs = vlib.run_tlc("System", cfg=cfg2, workers=1, timeout=1200, extra=["-simulate", "num=%d" % nsched, "-depth", "70", "-seed", str(c.seed)], tag="system")
    if rs["errors"] or rs["violated"]:
        raise vlib.ToolError("System.tla simulation failed:\n" + vlib.tail(rs["out"]))
    scheds = [json.loads(json.loads(ln)) for ln in rs["out"].splitlines() if ln.startswith('"[[')]
    if len(scheds) < nsched:
        raise vlib.ToolError("TLC produced %d schedules, expected %d" % (len(scheds), nsched))
    spath = os.path.join(wd, "schedules.txt")
    open(spath, "w").write("\n".join(json.dumps(x) for x in scheds) + "\n")
    c.cov["tlc_simulated_schedules"] = len(scheds)
    # (2) one thread interleaving mixed instances
    traces = 0
    for build in ["std-rel", "std-dbg"]:
        binary = vlib.build(build)
        trace = os.path.join(wd, "sys-%s.ndjson" % build)
        vlib.run_harness(binary, ["c18-interleave", "--seed", str(c.seed), "--tier", c.tier], out=trace)

        def canary(ep):
            for j, e in enumerate(ep):
                if e["ev"] == "apply" and e["res"] == "ok" and e["n"] > 0 and j > 6:
                    cn = copy.deepcopy(ep[: j + 1])
                    cn[j]["after"][0] ^= 1
                    return cn
            return None
        recs, eps, r2, _ = vlib.validate_episodes(c, "TraceSystem", trace, lambda e, first: {"ev": e["ev"], "i": e.get("i"), "res": e.get("res", "").split(":")[0], "build": build},
                                                  canary, "interleaved instances (%s)" % build)
        if "REFMISMATCH" in r2["out"]:
            raise vlib.ToolError("harness reference bookkeeping disagrees with the monitor's ghost message (harness bug)")
        traces += len(eps)
        c.add_events([e for e in recs if e["ev"] not in ("sys", "ref")], key=lambda e: {k: v for k, v in e.items() if k != "k"}, sample=1)
        trace = os.path.join(wd, "sched-%s.ndjson" % build)
        vlib.run_harness(binary, ["c18-schedules", "--script", spath, "--seed", str(c.seed)], out=trace)
        recs, eps, r3, _ = vlib.validate_episodes(c, "TraceSystem", trace, lambda e, first: {"ev": e["ev"], "i": e.get("i"), "res": e.get("res", "").split(":")[0], "build": build},
                                                  canary, "TLC-simulated schedule (%s)" % build)
        if "REFMISMATCH" in r3["out"]:
            raise vlib.ToolError("harness reference bookkeeping disagrees with the monitor's ghost message (harness bug)")
        traces += len(eps)
        c.add_events([e for e in recs if e["ev"] not in ("sys", "ref")], key=lambda e: {k: v for k, v in e.items() if k != "k"}, sample=1)
    # (3) cold processes, many threads: first calls into every algorithm
    binary = vlib.build("std-rel")
    nproc = 4000 if c.thorough else 160
    counts = [2, 3, 4, 8, 16, 32, 64]
    distinct = {}
    total = 0
    trace = os.path.join(wd, "cold.ndjson")
    for p in range(nproc):
        t = counts[p % len(counts)]
        rc, outp = vlib.run_harness_rc(binary, ["c18-cold", "--threads", str(t), "--seed", str(p % 11)], out=trace)
        if rc != 0:
            c.violation({"ev": "cold", "res": "crash", "threads": t}, [{"rc": rc, "threads": t, "output": outp[-2000:]}], "cold process with %d threads crashed (rc=%d)" % (t, rc))
            continue
        for e in vlib.read_ndjson(trace):
            total += 1
            e["cfg"] = "cold/threads=%d/proc=%d" % (t, p)
            key = json.dumps({k: v for k, v in e.items() if k not in ("cfg", "tag")}, sort_keys=True)
            distinct.setdefault(key, e)
    traces += nproc
    # (4) steady state: threads repeating their own operations concurrently (shared scratch / cached schedules)
    hot_total = 0
    hot_runs = [(16, 400), (4, 1500), (48, 150), (1, 40)] * (4 if c.thorough else 1)   # (threads, iterations); 1 thread = pure alternation
    for ri, (t, iters) in enumerate(hot_runs):
        rc, outp = vlib.run_harness_rc(binary, ["c18-hot", "--threads", str(t), "--iters", str(iters), "--seed", str(c.seed + ri)], out=trace)
        if rc != 0:
            c.violation({"ev": "hot", "res": "crash", "threads": t}, [{"rc": rc, "threads": t, "output": outp[-2000:]}], "process with %d concurrently hashing threads crashed (rc=%d)" % (t, rc))
            continue
        for e in vlib.read_ndjson(trace):
            hot_total += 1
            e["cfg"] = "hot/threads=%d/proc=%d" % (t, ri)
            key = json.dumps({k: v for k, v in e.items() if k not in ("cfg", "tag")}, sort_keys=True)
            distinct.setdefault(key, e)
    traces += len(hot_runs)
    c.cov["hot_runs_threads_iterations"] = hot_runs
    c.cov["hot_records"] = hot_total
    groups = {}
    for e in distinct.values():
        if e["ev"] == "ks":
            groups.setdefault("TraceC01", []).append(e)
        elif e["ev"] == "digest":
            groups.setdefault(next(v for k, v in FAMILY.items() if e["alg"].startswith(k)), []).append(e)
        elif e["ev"] == "tf":
            groups.setdefault("TraceTF", []).append(e)
        else:
            c.violation({"ev": e["ev"], "res": "panic"}, [e], "a thread panicked during concurrent first use: %s" % e)

    def mutate(e):
        for f in ("after", "out", "y"):
            if f in e and e[f]:
                e[f][0] ^= 2
                return
    for module, recs in sorted(groups.items()):
        vlib.validate_stateless(c, module, recs, lambda e: {"ev": e["ev"], "alg": e.get("alg", e.get("variant")), "res": e["res"].split(":")[0], "cfg": e["cfg"].split("/proc")[0]},
                                mutate, "concurrent use (cold first calls / steady state)", timeout=6000, workers=12, env={"MODE": "enc"} if module == "TraceTF" else None)
        if module == "TraceTF":
            def mutate_inv(e):
                e["z"][0] ^= 2
                e["y"][0] ^= 2
            vlib.validate_stateless(c, module, recs, lambda e: {"ev": e["ev"], "alg": "tf%d" % e["size"], "res": e["res"].split(":")[0], "cfg": e["cfg"].split("/proc")[0]},
                                    mutate_inv, "concurrent use (steady state, inverse)", timeout=6000, workers=12, env={"MODE": "inv"})
    c.cov["evaluations"] += total
    c.cov["distinct_nontrivial"] += len(distinct)
    c.cov["cold_processes"] = nproc
    c.cov["cold_thread_counts"] = counts
    c.cov["cold_events"] = total
    c.cov["cold_distinct_outcomes_validated"] = len(distinct)
    c.cov["traces_validated_against_impl"] = traces
    c.cov["rule"] = ("(1) TLC explores every interleaving of Concurrency.tla (threads x calls x lazily initialised cells + racy feature cache). (2) TLC draws schedules from the composition model System.tla "
                     "(3 ciphers + up to 4 hashers, -simulate) and they are replayed on real instances - ciphers 1 and 3 sharing key and nonce but not round count, hashers 1 and 2 of one algorithm; "
                     "in addition one thread interleaves operations on 2-3 ciphers and "
                     "2-5 hashers (clones included) of random types; TLC validates with TraceSystem.tla, the product of the per-instance ideal specifications, so a step on one instance can only be "
                     "explained by that instance's own history. (3) freshly exec'd processes (cold lazy_static / CPU-feature cache) release 2..64 threads through a barrier; every thread makes the "
                     "process's first calls into Groestl-224/256/384/512 (all six function-pointer cells), BLAKE, JH, Skein and three ChaCha types, each starting with a different algorithm; "
                     "events carry (thread, per-thread sequence) only; every distinct (input, output) is validated by TLC against the function specifications. "
                     "(4) steady state: 4/16/48 threads repeat their own hash (Skein with 1..8 output blocks, BLAKE, JH, Groestl), ChaCha and Threefish operations hundreds of times concurrently; the first record "
                     "and every record differing from it are validated the same way (shared scratch or cached schedules would produce differing, rejected records). "
                     "evaluations = interleaved calls + cold events; distinct counts distinct call records / distinct (input, output) pairs.")
    c.assumptions += ["real interleavings are chosen by the OS scheduler; a narrow race window can be missed", "lazy_static / std::sync::Once / std_detect are outside the repository and are modelled, not hooked"]
    return c.finish()
