"""C11: keystream exhaustion is an atomic error, never a counter wrap (pattern P2; shares Stream.tla with C02)."""
import vlib
from props import stream_common

LEVEL = "model_checking"


def run(c):
    stream_common.run_stream(c, "C11")
    c.cov["rule"] = ("Stream.tla checked by TLC: exhaustively at scaled constants (apply fails iff pos+n exceeds the keystream, failed apply keeps the position, "
                     "the IETF nonce word never changes, seek beyond the end is an error and exactly at the end succeeds, no panic), and at the real constants "
                     "with seek targets at 2^38 +/- d, 2^64-1-d and request lengths crossing the limits by one; every edge of that graph is replayed on the real "
                     "ciphers (release+debug) and validated with seeded random histories by TLC against the ideal spec (error => data byte-for-byte unchanged, "
                     "position unchanged, cipher still usable). The 2^64-block end of the 64-bit variants, unreachable through seek, is entered through "
                     "Buffer's public fields (teleport event). evaluations = recorded calls validated.")
    c.cov["exhaustive_small_model"] = True
    c.assumptions += ["scaled constants exhibit every abstract situation of the real constants; the real-constant graph is depth-bounded",
                      "teleport: setting (have,len,fresh,counter) through public fields equals the state reached by consuming 2^64-k blocks (Stream.tla LenCoherent/PosCoherent)"]
    return c.finish()
