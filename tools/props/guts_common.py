"""Shared by C14 and C15: MCGuts small model + TraceGuts validation of block-level API events."""
import copy
import os
import re
import vlib

FORCED = {"sse2": 1, "ssse3": 2, "sse41": 3, "avx": 4, "avx2": 5}


def model_check(c, w, kw, pairs, invs):
    cfg = os.path.join(c.workdir(), "MCGuts.cfg")
    open(cfg, "w").write("CONSTANTS\n  W = %d\n  KW = %d\n  PAIRS = %s\nINIT Init\nNEXT Next\nCHECK_DEADLOCK FALSE\nINVARIANTS %s\n" %
                         (w, kw, "TRUE" if pairs else "FALSE", " ".join(invs)))
    r = vlib.run_tlc("MCGuts", cfg=cfg, workers=8, timeout=3000, tag="guts")
    vlib.tlc_must_succeed(r, "MCGuts")
    if r["violated"]:
        raise vlib.ToolError("the guts MODEL violates its own properties (spec bug):\n" + vlib.tail(r["out"]))
    c.add_model(r, "MCGuts W=%d KW=%d pairs=%s invariants %s (exhaustive over all states)" % (w, kw, pairs, ",".join(invs)))


def apalache_counter_law(c):
    """refill4 = 4 x refill counter law at the REAL 32-bit word size for every value of the four row-3 words (Apalache, one SMT query)."""
    import subprocess
    import time
    t0 = time.time()
    out_dir = os.path.join(c.workdir(), "apalache-guts")
    p = subprocess.run(["timeout", "600", "apalache-mc", "check", "--init=Init", "--inv=Inv", "--length=0", "--out-dir=" + out_dir, "GutsCF.tla"],
                       cwd=os.path.join(vlib.SPEC, "apalache"), stdout=subprocess.PIPE, stderr=subprocess.STDOUT, text=True)
    import shutil
    shutil.rmtree(out_dir, ignore_errors=True)
    if "The outcome is: Error" in p.stdout:
        raise vlib.ToolError("Apalache refutes the refill4 counter law of GutsCF.tla (model bug):\n" + vlib.tail(p.stdout, 15))
    ok = "EXITCODE: OK" in p.stdout and "The outcome is: NoError" in p.stdout
    c.cov["apalache_counter_law"] = {"result": "discharged" if ok else "not discharged (rc=%s)" % p.returncode, "wall_s": round(time.time() - t0, 1),
                                     "meaning": "for all 2^128 values of the row-3 words at the real word size, d0123 / add_pos(.., 4) equal four wrapping 64-bit increments; the carry never reaches the stream-id words"}


def _canary(ep):
    for j, e in enumerate(ep):
        if e["ev"] in ("refill", "refill4") and e["res"] == "ok":
            can = copy.deepcopy(ep[: j + 1])
            can[j]["out"][len(can[j]["out"]) - 1] ^= 0x80
            return can
    return None


def configs(c):
    """(build variant, forced backend level) pairs"""
    cf = [("std-rel", 0), ("std-dbg", 0), ("std-rel", 1), ("nosimd-rel", 0), ("nostd-avx2", 0)]
    if c.thorough:
        cf += [("std-rel", 2), ("std-rel", 3), ("std-rel", 4), ("std-rel", 5), ("std-dbg", 1), ("nosimd-dbg", 0)]
    return cf


def run_guts(c, driver):
    wd = c.workdir()
    v = vlib.run_tlc("VecChaCha", workers=1, timeout=300, tag="vec")
    vlib.tlc_must_succeed(v, "VecChaCha")
    if v["violated"]:
        raise vlib.ToolError("ChaChaFn no longer reproduces the published vectors")
    traces = 0
    import json
    # identical episodes (same calls, same outcomes) recorded under several configurations are validated once; an episode whose
    # outcome differs in one configuration is a distinct episode and is validated - and rejected - on its own
    uniq = {}
    for build, force in configs(c):
        binary = vlib.build(build)
        trace = os.path.join(wd, "%s-%s-%d.ndjson" % (driver, build, force))
        vlib.run_harness(binary, [driver, "--seed", str(c.seed), "--tier", c.tier, "--force", str(force)], out=trace)
        cfgname = "%s/force=%d" % (build, force)
        recs = vlib.read_ndjson(trace)
        os.remove(trace)
        eps = vlib.episodes(recs)
        traces += len(eps)
        c.add_events([e for e in recs if e["k"] != 0], key=lambda e: {k: v for k, v in e.items() if k != "k"}, sample=1)
        for ep in eps:
            key = json.dumps(ep, sort_keys=True)
            if key not in uniq:
                for e in ep:
                    e["cfgname"] = cfgname
                uniq[key] = ep
    trace = os.path.join(wd, "%s-all.ndjson" % driver)
    vlib.write_ndjson(trace, [e for ep in uniq.values() for e in ep])
    vlib.validate_episodes(
        c, "TraceGuts", trace,
        lambda e, first: {"ev": e["ev"], "res": e.get("res", "").split(":")[0], "cfg": first.get("cfgname"), "tag": first.get("tag")},
        _canary, "%s" % driver, workers=12)
    c.cov["distinct_episodes_validated_by_tlc"] = len(uniq)
    c.cov["traces_validated_against_impl"] = traces
    c.cov["configurations"] = ["%s/force=%d" % x for x in configs(c)]
    return traces
