"""C17: hash length counters stay exact for very long messages and at word boundaries (P2 + hooks H2)."""
import os
import vlib
from props import c08

LEVEL = "model_checking"
FAMS = [("blake", "TraceCtrBlake"), ("groestl", "TraceCtrGroestl"), ("jh", "TraceCtrJH"), ("skein", "TraceCtrSkein")]
STREAMS_Q = [("blake256", "TraceCtrBlake"), ("jh256", "TraceCtrJH")]
BIG = {"TraceCtrBlake": ["blake256", "blake512", "blake224", "blake384"], "TraceCtrGroestl": ["groestl256", "groestl512", "groestl224", "groestl384"],
       "TraceCtrJH": ["jh256", "jh512"], "TraceCtrSkein": ["skein256", "skein512", "skein1024"]}
STREAMS_T = [("blake224", "TraceCtrBlake"), ("skein512", "TraceCtrSkein"), ("skein256", "TraceCtrSkein")]


def apalache_blake_counter(c):
    """BLAKE's two-word bit counter at the REAL word sizes, every block count up to the format limit (Apalache, inductive)."""
    import shutil, subprocess, time
    res = {}
    for w in (32, 64):
        t0 = time.time()
        ok = True
        for args in (["--init=Init", "--inv=IndInv", "--length=0"], ["--init=IndInit", "--inv=IndInv", "--length=1"]):
            out_dir = os.path.join(c.workdir(), "apalache-hctr")
            p = subprocess.run(["timeout", "600", "apalache-mc", "check"] + args + ["--out-dir=" + out_dir, "HashCtrCF%d.tla" % w],
                               cwd=os.path.join(vlib.SPEC, "apalache"), stdout=subprocess.PIPE, stderr=subprocess.STDOUT, text=True)
            shutil.rmtree(out_dir, ignore_errors=True)
            if "The outcome is: Error" in p.stdout:
                raise vlib.ToolError("Apalache refutes the inductive counter invariant of HashCtrCF%d.tla (model bug):\n%s" % (w, vlib.tail(p.stdout, 15)))
            ok = ok and "EXITCODE: OK" in p.stdout and "The outcome is: NoError" in p.stdout
        res["W=2^%d" % w] = {"result": "discharged" if ok else "not discharged on this run", "wall_s": round(time.time() - t0, 1)}
    res["meaning"] = ("Init => IndInv and IndInv /\\ Step => IndInv' at the real word sizes: t0 + W*t1 equals the bits absorbed after any number of blocks / tails "
                      "up to 2^(2w)-1 bits, and the checked `t.1 += 1` never overflows inside that limit")
    c.cov["apalache_blake_counter"] = res


def run(c):
    wd = c.workdir()
    # counter logic at scaled word widths: low counter word of 4 and 8 values, several wraps
    for kind, foot in [("blake", 3), ("groestl", 2), ("jh", 2), ("skein", 0)]:
        for cw in ((4, 8) if c.thorough else (4,)):
            c08.mc(c, "HashBuf", "CONSTANTS\n B = 6\n FOOT = %d\n KIND = \"%s\"\n CW = %d\n MAXLEN = %d\n MAXPIECE = 14\nINIT Init\nNEXT Next\nCHECK_DEADLOCK FALSE\nINVARIANTS Coherent CounterExact FinalRight\n"
                   % (foot, kind, cw, 44 if c.thorough else 30),
                   "HashBuf KIND=%s CW=%d: counter equals the amount absorbed for every length across low-word wraps (CounterExact), carry into the high word, +1/+2 block count" % (kind, cw))
    apalache_blake_counter(c)
    traces = 0
    import json
    # identical (input, outcome) events of the release and the debug build are validated once; an event that differs between
    # the builds (e.g. an overflow panic in debug) is a distinct outcome and is validated - and rejected - by itself
    for fam, module in FAMS:
        uniq = {}
        for build in ["std-rel", "std-dbg"]:
            binary = vlib.build(build)
            trace = os.path.join(wd, "c17-%s-%s.ndjson" % (fam, build))
            vlib.run_harness(binary, ["c17", "--family", fam, "--seed", str(c.seed), "--tier", c.tier], out=trace)
            recs = vlib.read_ndjson(trace)
            os.remove(trace)
            traces += len(recs)
            c.add_events(recs, key=lambda e: (e["alg"], e["base"], e["rest"]), sample=1)
            for e in recs:
                e["build"] = build
                uniq.setdefault(json.dumps({k: v for k, v in e.items() if k != "build"}, sort_keys=True), e)

        def mutate(e):
            e["out"][1] ^= 0x20
        vlib.validate_stateless(c, module, list(uniq.values()), lambda e: {"ev": e["ev"], "alg": e["alg"], "tag": e["tag"], "res": e["res"].split(":")[0], "build": e["build"]},
                                mutate, "counter fast-forward %s" % fam, timeout=6000, workers=12)
    # real streaming across the first boundary, validated through a checkpoint
    binary = vlib.build("std-rel")
    for which, module in STREAMS_Q + (STREAMS_T if c.thorough else []):
        trace = os.path.join(wd, "stream-%s.ndjson" % which)
        vlib.run_harness(binary, ["c17-stream", "--which", which], out=trace, timeout=3000)
        recs = vlib.read_ndjson(trace)
        os.remove(trace)

        def mutate2(e):
            e["base"][0] ^= 8      # a counter that is off by one byte/bit-group must be rejected
        vlib.validate_stateless(c, module, recs, lambda e: {"ev": e["ev"], "alg": e["alg"], "tag": e["tag"], "res": e["res"].split(":")[0], "build": "std-rel"},
                                mutate2, "real streaming %s" % which, workers=2)
        traces += len(recs)
        c.add_events(recs, key=lambda e: (e["alg"], e["base"], e["rest"][:64]), sample=1)
    # one update call of more than 2^32 bytes (per-call arithmetic on data.len()) against the same message fed in pieces
    from concurrent.futures import ThreadPoolExecutor
    jobs = []
    for module, names in BIG.items():
        for i, which in enumerate(names):
            if c.thorough or i == c.seed % len(names):
                jobs.append((module, which))

    def big(job):
        module, which = job
        trace = os.path.join(wd, "big-%s.ndjson" % which)
        vlib.run_harness(binary, ["c17-big", "--which", which], out=trace, timeout=3000)
        recs = vlib.read_ndjson(trace)
        os.remove(trace)
        return module, which, recs
    with ThreadPoolExecutor(max_workers=6) as ex:
        bigs = list(ex.map(big, jobs))
    for module in BIG:
        recs = [e for m, w, rs in bigs if m == module for e in rs]
        if not recs:
            continue

        def mutate3(e):
            e["base"][2] ^= 1      # a counter short by 2^32 units must be rejected
        vlib.validate_stateless(c, module, recs, lambda e: {"ev": e["ev"], "alg": e["alg"], "tag": e["tag"], "res": e["res"].split(":")[0], "build": "std-rel"},
                                mutate3, "one update call > 2^32 bytes (%s)" % module, workers=2)
        traces += len(recs)
        c.add_events(recs, key=lambda e: (e["alg"], e["tag"], e["base"]), sample=1)
    c.cov["one_call_4GiB"] = [w for m, w in jobs]
    c.cov["traces_validated_against_impl"] = traces
    c.cov["exhaustive_small_model"] = True
    c.cov["rule"] = ("(0) Apalache: HashCtrCF32/64.tla - BLAKE's two-word bit counter is exact for every block count up to the format limit at the real word sizes (inductive invariant). "
                     "(1) TLC: HashBuf.tla CounterExact/FinalRight for every message length up to several wraps of a scaled low counter word, all partitions, four hasher kinds. "
                     "(2) real code: on a new instance hook H2 sets the counter to X - k blocks for X in {2^32, 7*2^32 bits (BLAKE-224/256), 2^64, 3*2^64 bits (BLAKE-384/512), 2^8, 2^16, 2^32, 2^40 blocks "
                     "(Groestl), 2^32 bits, 2^32 bytes, near 2^61 bytes (JH), 2^32, 2^40 bytes (Skein)}, then k+j real blocks plus a partial block cross the boundary through the real increment code; "
                     "TLC recomputes the digest from (IV, amount absorbed, remaining bytes) with the hash specifications. (3) really streamed messages (512 MiB BLAKE-256 and JH-256; thorough: BLAKE-224, "
                     "4 GiB Skein-256/512) with a checkpoint (chaining value, counter, buffered bytes) before the boundary: counter must equal the amount fed and the digest the specification's value. "
                     "(4) ONE update call of 2^32+k bytes after a short prefix (one variant per family in quick, rotating with the seed; all 13 in thorough), checkpointed the same way, and the same message fed "
                     "in <1 GiB pieces: counter = amount fed, identical chaining value / counter / digest for both feedings, digest recomputed by the specification from the checkpoint (Groestl: no "
                     "chaining-value hook, so block-count law and equality with the chunk-fed digest only).")
    c.assumptions += ["fast-forward is sound because conformance of compression is a statement about (chaining value, block, counter) triples; the chaining value used is the IV",
                      "Groestl 2^16 / 2^32 blocks are reached by fast-forward only"]
    return c.finish()
