"""C14: refill4 = 4 x refill with a 64-bit counter (P2 small model + P1 trace validation)."""
import vlib
from props import guts_common

LEVEL = "model_checking"


def run(c):
    guts_common.model_check(c, 8 if not c.thorough else 16, 1, False, ["Refill4IsFourRefills", "CounterAdvances"])
    guts_common.apalache_counter_law(c)
    guts_common.run_guts(c, "c14")
    c.cov["rule"] = ("MCGuts: for EVERY counter/stream-id value of a scaled word size, refill_wide's lane arithmetic (d0123 + add_pos) equals four single refills in output "
                     "identity and final state, the carry reaching the high counter word and never the stream id. Real code: refill / refill4 / mixed sequences from counters at "
                     "2^32-{0..4}, 2^64-{0..4}, 0xffffffff00000000-{0..4} and random, double rounds 0..10, 8/12-byte nonces, per build and forced backend; each output block and "
                     "the parameters after each call are validated by TLC against ChaChaFn (TraceGuts.tla). evaluations = validated calls.")
    c.cov["exhaustive_small_model"] = True
    c.assumptions += ["uninterpreted block function in the small model (bytes are tied to ChaChaFn by the trace validation)", "sampled keys / stream ids at the real word size"]
    return c.finish()
