"""C19: ppv-null emulated vectors equal scalar lane-wise arithmetic and never panic (P1)."""
import copy
import os
import vlib

LEVEL = "exploration"


def run(c):
    wd = c.workdir()
    allrecs = []
    for build in ["std-dbg", "std-rel"]:
        binary = vlib.build(build)
        trace = os.path.join(wd, "c19-%s.ndjson" % build)
        vlib.run_harness(binary, ["c19", "--seed", str(c.seed), "--tier", c.tier], out=trace)
        for e in vlib.read_ndjson(trace):
            e["build"] = build
            allrecs.append(e)
    n = len(allrecs)
    can = copy.deepcopy(next(e for e in allrecs[c.seed % n:] + allrecs if e["res"] == "ok" and e["out"]))
    can["out"][-1] ^= 0x40
    can["build"] = "canary"
    trace = os.path.join(wd, "c19-all.ndjson")
    vlib.write_ndjson(trace, allrecs + [can])
    rej, r = vlib.validate_trace("TraceNull", trace, workers=8, timeout=3000, expect_states=2 * (n + 1))
    idx = sorted(l for l, _ in rej)
    if n + 1 not in idx:
        raise vlib.ToolError("canary event was not rejected: TraceNull validation is not binding")
    for l in idx:
        if l == n + 1:
            continue
        e = allrecs[l - 1]
        d = {"ty": e["ty"], "op": e["op"], "res": e["res"].split(":")[0], "build": e["build"]}
        c.violation(d, [e], "ppv-null op rejected: %s.%s (%s) res=%s a=%s b=%s i=%d out=%s" %
                    (e["ty"], e["op"], e["build"], e["res"], vlib.shorten(e["a"], 16), vlib.shorten(e["b"], 16), e["i"], vlib.shorten(e["out"], 16)))
    c.add_events(allrecs, key=lambda e: (e["ty"], e["op"], e["a"], e["b"], e["i"]), sample=2)
    c.cov["type_op_pairs"] = len({(e["ty"], e["op"]) for e in allrecs})
    c.cov["canary_rejected"] = True
    c.cov["rule"] = ("every public method of ppv-null's u32x4, u64x4, u128x1, u128x2, u32x4x4 (constructors, load/store/extract/replace, add, xor/and/or/not/andnot, per-lane and splat "
                     "rotations with amounts 1..bits-1 (all amounts in the thorough tier), word rotations 0..3, swap1..swap64) on structured and random operands, in debug "
                     "(overflow-checked) and release builds; TLC compares each result with lane-wise scalar semantics (TraceNull.tla) and rejects any panic. "
                     "distinct = distinct (type, op, operands).")
    c.assumptions += ["operands sampled; out-of-contract calls (rotation by 0 or >= bits, index out of range) are not generated"]
    return c.finish()
