"""C01: ChaCha keystream equals the specified function (pattern P1: executable TLA+ oracle)."""
import copy
import os
import vlib

LEVEL = "exploration"


def run(c):
    wd = c.workdir()
    # the function spec is pinned by published vectors on every run
    r = vlib.run_tlc("VecChaCha", workers=1, timeout=300, tag="vec")
    vlib.tlc_must_succeed(r, "VecChaCha")
    if r["violated"]:
        raise vlib.ToolError("ChaChaFn no longer reproduces the published vectors:\n" + vlib.tail(r["out"]))
    variants = ["std-rel", "std-dbg"] if c.thorough else ["std-rel"]
    total = 0
    for v in variants:
        binary = vlib.build(v)
        trace = os.path.join(wd, "c01-%s.ndjson" % v)
        vlib.run_harness(binary, ["c01", "--seed", str(c.seed), "--tier", c.tier], out=trace)
        recs = vlib.read_ndjson(trace)
        n = len(recs)
        # canary: one corrupted copy of a real event must be rejected, else the binding is dead
        can = copy.deepcopy(recs[c.seed % n])
        can["after"][len(can["after"]) // 2] ^= 0x10
        can["tag"] = "canary"
        vlib.write_ndjson(trace, recs + [can])
        rej, r = vlib.validate_trace("TraceC01", trace, workers=8, timeout=3000, expect_states=2 * (n + 1))
        idx = [l for l, _ in rej]
        if n + 1 not in idx:
            raise vlib.ToolError("canary event was not rejected: trace validation is not binding")
        for l, body in rej:
            if l == n + 1:
                continue
            e = recs[l - 1]
            desc = {"ev": "ks", "variant": e["variant"], "tag": e["tag"], "res": e["res"].split(":")[0], "build": v}
            c.violation(desc, [e], "ks event rejected by ChaChaFn: variant=%s pos=%s n=%d res=%s build=%s" % (e["variant"], e["pos"], e["n"], e["res"], v))
        c.add_events(recs, nontrivial=lambda e: e["n"] > 0, key=lambda e: (e["variant"], e["key"], e["nonce"], e["pos"], e["n"], e["before"]))
        c.cov["canary_rejected"] = True
        total += n
    c.cov["rule"] = ("one event = fresh cipher of one of the 7 types, seek(pos), one apply_keystream of n bytes, with guard bytes around the "
                     "slice; generated: repo KATs, single-bit keys/nonces, random key/nonce x position classes (0, mid-block, 2^38 boundary, "
                     "2^32-block carry, end of 64-bit range) x lengths hitting buffered/wide/narrow paths x data 00/ff/random; "
                     "distinct = distinct (variant,key,nonce,pos,n,data); non-trivial = n>0. Oracle: TLA+ ChaChaFn evaluated by TLC.")
    c.assumptions += ["ChaChaFn.tla transcribes RFC 7539 / XChaCha draft correctly (pinned by published vectors in VecChaCha.tla on every run)",
                      "inputs are sampled, not exhaustive"]
    return c.finish()
