"""C20: every declared cargo feature combination builds and only selects implementations (P3; thin TLA+ part)."""
import json
import os
import re
import shutil
import subprocess
import vlib
from props import c03

LEVEL = "exploration"
REPO = vlib.REPO


def tla_set(xs):
    return "{" + ", ".join('"%s"' % x for x in sorted(xs)) + "}"


def metadata():
    p = vlib.sh(["cargo", "metadata", "--no-deps", "--offline", "--format-version", "1"], cwd=REPO, timeout=300)
    out = p.stdout[p.stdout.index("{"):]
    m = json.loads(out)
    crates = {}
    for pk in m["packages"]:
        feats = dict(pk["features"])
        names = set(feats) - {"default"}
        imp = {f: [x for x in v if x in names] for f, v in feats.items()}
        imp.setdefault("default", [])
        crates[pk["name"]] = (names, imp)
    # workspace-internal dependency edges: (dependent, dependency) - a dependency's declared features also reach its dependents
    # through cargo's feature unification
    edges = []
    versions = {pk["name"]: pk["version"] for pk in m["packages"]}
    for pk in m["packages"]:
        for d in pk.get("dependencies", []):
            if d["name"] in crates and d.get("kind") in (None, "normal"):
                # only if the requirement can be met by the workspace member (same 0.x line): ppv-null asks for crypto-simd 0.1,
                # which comes from the registry, not from the workspace's 0.2
                want = re.findall(r"\d+", d.get("req", ""))[:2]
                have = versions[d["name"]].split(".")[:2]
                if want == have[:len(want)]:
                    edges.append((pk["name"], d["name"]))
    crates["__edges__"] = sorted(set(edges))
    return crates


def gen_module(wd, crates):
    lines = ["------------------------------ MODULE MCFeatures ------------------------------",
             "(* GENERATED from `cargo metadata --no-deps` of /repo at check time. *)", "EXTENDS Features",
             "MCCrates == " + tla_set(crates)]
    feat = ["[c \\in MCCrates |-> CASE " + " [] ".join('c = "%s" -> %s' % (c, tla_set(crates[c][0])) for c in sorted(crates)) + "]"]
    lines.append("MCFeat == " + feat[0])
    parts = []
    for c in sorted(crates):
        names, imp = crates[c]
        dom = sorted(names | {"default"})
        inner = " [] ".join('f = "%s" -> %s' % (f, tla_set(imp.get(f, []))) for f in dom)
        parts.append('c = "%s" -> [f \\in %s |-> CASE %s]' % (c, tla_set(dom), inner))
    lines.append("MCImp == [c \\in MCCrates |-> CASE " + " [] ".join(parts) + "]")
    lines.append("=============================================================================")
    path = os.path.join(wd, "MCFeatures.tla")
    open(path, "w").write("\n".join(lines) + "\n")
    open(os.path.join(wd, "MCFeatures.cfg"), "w").write("CONSTANTS\n Crates <- MCCrates\n Feat <- MCFeat\n Imp <- MCImp\nINIT Init\nNEXT Next\nVIEW View\nCHECK_DEADLOCK FALSE\n"
                                                        "INVARIANTS ClosedIsClosed ClosedContainsRequest ClosedIsLeast\n")
    return path[:-4]


def enumerate_configs(c, crates):
    wd = c.workdir()
    mod = gen_module(wd, crates)
    dump = os.path.join(wd, "features.dump")
    r = vlib.run_tlc(mod, cfg=os.path.join(wd, "MCFeatures.cfg"), workers=1, timeout=600, extra=["-dump", dump], tag="features")
    vlib.tlc_must_succeed(r, "MCFeatures")
    if r["violated"]:
        raise vlib.ToolError("Features.tla closure sanity violated (spec bug):\n" + vlib.tail(r["out"]))
    c.add_model(r, "Features.tla over the generated feature graph of %d crates: every request (subset x default on/off), folded onto closures" % len(crates))
    text = open(dump).read()
    cfgs = []
    for st in re.split(r"\nState \d+:", "\n" + text):
        mc = re.search(r'crate = "([^"]+)"', st)
        mf = re.search(r"closed = \{([^}]*)\}", st)
        if mc and mf:
            cfgs.append((mc.group(1), tuple(sorted(re.findall(r'"([^"]+)"', mf.group(1))))))
    cfgs = sorted(set(cfgs))
    if len(cfgs) != r["distinct"]:
        raise vlib.ToolError("parsed %d configurations from the dump, TLC reports %d distinct states" % (len(cfgs), r["distinct"]))
    return cfgs


def run(c):
    wd = c.workdir()
    crates = metadata()
    edges = crates.pop("__edges__")
    cfgs = enumerate_configs(c, crates)
    tdir = os.path.join(vlib.WORK, "target", "c20-lattice")
    verb = "build" if c.thorough else "check"
    events = []
    for crate, feats in cfgs:
        cmd = ["cargo", verb, "--offline", "--locked", "-p", crate, "--no-default-features", "--target-dir", tdir]
        if feats:
            cmd += ["--features", ",".join(feats)]
        p = vlib.sh(cmd, cwd=REPO, env={"CARGO_NET_OFFLINE": "true", "RUSTFLAGS": "-Awarnings"}, timeout=1800, check=False)
        errs = [ln for ln in p.stdout.splitlines() if ln.startswith("error")]
        if p.returncode != 0 and "could not compile" not in p.stdout and not any(ln.startswith("error[E") for ln in errs):
            # cargo could not even start compiling (lock file, resolution, registry): that is the environment, not the property
            raise vlib.ToolError("cargo %s -p %s failed before compiling anything:\n%s" % (verb, crate, vlib.tail(p.stdout, 12)))
        events.append({"k": 0, "ev": "build", "crate": crate, "features": list(feats), "status": "ok" if p.returncode == 0 else "fail",
                       "errors": errs[:3], "verb": verb})
    # a dependency built in one of ITS declared configurations must still carry its dependents (feature unification makes
    # `c2-chacha/no_simd` switch ppv-lite86's backend for every other crate of the build): dependent x {default, no default
    # features} x each single declared feature of the workspace dependency
    cross = 0
    for dep in sorted(set(d for _, d in edges)):
        dependents = sorted(x for x, d in edges if d == dep)
        for f in sorted(crates[dep][0]):
            for nodef in (False, True):
                # one cargo invocation per (dependency feature, default on/off) covering all dependents
                cmd = ["cargo", "check", "--offline", "--locked", "--keep-going", "-p", dep, "--features", "%s/%s" % (dep, f), "--target-dir", tdir]
                for x in dependents:
                    cmd += ["-p", x]
                if nodef:
                    cmd.append("--no-default-features")
                p = vlib.sh(cmd, cwd=REPO, env={"CARGO_NET_OFFLINE": "true", "RUSTFLAGS": "-Awarnings"}, timeout=1800, check=False)
                errs = [ln for ln in p.stdout.splitlines() if ln.startswith("error")]
                if p.returncode != 0 and "could not compile" not in p.stdout and not any(ln.startswith("error[E") for ln in errs):
                    raise vlib.ToolError("cargo check -p %s with %s/%s failed before compiling anything:\n%s" % (dependents, dep, f, vlib.tail(p.stdout, 12)))
                failed = set(re.findall(r"could not compile `([^`]+)`", p.stdout))
                for x in dependents + [dep]:
                    cross += 1
                    events.append({"k": 0, "ev": "build", "crate": x, "features": ["%s/%s" % (dep, f)] + (["(no default features)"] if nodef else []),
                                   "status": "fail" if x in failed else "ok", "errors": errs[:3] if x in failed else [], "verb": "check"})
    c.cov["cross_crate_configurations"] = cross
    if c.thorough:
        shutil.rmtree(tdir, ignore_errors=True)
    for e in events:
        if e["status"] != "ok":
            d = {"crate": e["crate"], "features": ",".join(e["features"]), "status": e["status"], "nightly_dep": "packed_simd" if any(f in ("packed_simd", "packed_simd_crate") for f in e["features"]) else "none"}
            c.violation(d, [e], "feature configuration does not build: cargo %s -p %s --no-default-features --features '%s': %s" % (verb, e["crate"], ",".join(e["features"]), e["errors"][:2]))
    c.add_events(events, key=lambda e: (e["crate"], e["features"]), sample=3)
    c.cov["exhaustive"] = True
    c.cov["configurations_enumerated_by_tlc"] = len(cfgs)
    c.cov["per_crate"] = {cr: sum(1 for x, _ in cfgs if x == cr) for cr in sorted(crates)}
    # "only selects implementations": the same functional events under feature-selected builds, one configuration-free specification
    drivers = [("chacha-stream", ["c01"], "TraceC01", "stateless"), ("blake", ["digests", "--family", "blake"], "TraceBlake", "stateless"),
               ("groestl", ["digests", "--family", "groestl"], "TraceGroestl", "stateless"),
               ("threefish", ["tf"], "TraceTF", "stateless", {"MODE": "enc"}),
               ("threefish-inverse", ["tf"], "TraceTF", "stateless", {"MODE": "inv"}),
               # "never changes any result" includes the digests of very long messages (fast-forwarded length counters)
               ("blake-long", ["c17", "--family", "blake"], "TraceCtrBlake", "stateless"), ("jh-long", ["c17", "--family", "jh"], "TraceCtrJH", "stateless"),
               ("groestl-long", ["c17", "--family", "groestl"], "TraceCtrGroestl", "stateless"), ("skein-long", ["c17", "--family", "skein"], "TraceCtrSkein", "stateless")]
    fcfgs = [("std-rel", 0), ("nosimd-rel", 0), ("nostd-sse2", 0), ("nounroll-rel", 0)] + ([("nostd-avx2", 0), ("nosimd-dbg", 0), ("nostd-aes", 0)] if c.thorough else [])
    build_violations = len(c.violations) if hasattr(c, "violations") else 0
    try:
        total, _ = c03.cross_validate(c, fcfgs, drivers, label="C20")
    except vlib.ToolError as ex:
        # a feature configuration that does not build also breaks the harness builds that use it: that is the violation
        # already recorded above, not a tool error
        if not build_violations or "harness build failed" not in str(ex):
            raise
        total = 0
        c.notes.append("functional part skipped: %s (consequence of the build violations reported)" % str(ex).splitlines()[0])
    c.cov["functional_events_compared"] = total
    c.cov["functional_configurations"] = ["%s/force=%d" % x for x in fcfgs]
    c.cov["rule"] = ("Features.tla + a module generated from `cargo metadata` describe each crate's feature graph; TLC enumerates every request (any subset of the declared features, default on/off), "
                     "closes it under the declared implications and folds equal closures: that finite set of configurations is realised one by one with `cargo %s -p <crate> --no-default-features "
                     "--features <closure>` on the stable toolchain (exhaustive over the lattice). 'Only selects implementations': ChaCha, BLAKE, Groestl and Threefish events recorded from builds with "
                     "std / no_simd / no-std (default features off) / no_unroll are validated by the same configuration-free specifications. evaluations = configurations built + functional outcomes."
                     % verb)
    c.assumptions += ["TLC contributes enumeration and closure only; the oracle for 'builds' is cargo's exit status", "x86-64 target, stable toolchain of this sandbox"]
    return c.finish()
