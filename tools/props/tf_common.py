"""Shared by C09 / C10: Threefish events validated against Threefish.tla."""
import vlib


def pin_vectors():
    r = vlib.run_tlc("VecSkein", workers=1, timeout=600, tag="vec")
    vlib.tlc_must_succeed(r, "VecSkein")
    if r["violated"]:
        raise vlib.ToolError("Threefish.tla / Skein.tla no longer reproduce the published vectors")


def run_tf(c, mode):
    import os
    pin_vectors()
    wd = c.workdir()
    allrecs = []
    builds = ["std-rel", "nounroll-rel", "std-dbg"] + (["nosimd-dbg"] if c.thorough else [])
    for b in builds:
        binary = vlib.build(b)
        trace = os.path.join(wd, "tf-%s.ndjson" % b)
        vlib.run_harness(binary, ["tf", "--seed", str(c.seed), "--tier", c.tier, "--cfg", b], out=trace)
        allrecs += vlib.read_ndjson(trace)

    def mutate(e):
        if mode == "enc":
            e["y"][3] ^= 2
        else:
            e["z"][5] ^= 8
    vlib.validate_stateless(c, "TraceTF", allrecs, lambda e: {"size": e["size"], "tag": e["tag"], "cfg": e["cfg"], "res": e["res"].split(":")[0]},
                            mutate, "threefish %s" % mode, env={"MODE": mode})
    c.add_events(allrecs, key=lambda e: (e["size"], e["key"], e["t0"], e["t1"], e["x"], e["ctor0"]), sample=1)
    c.cov["configurations"] = builds
