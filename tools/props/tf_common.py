"""Shared by C09 / C10: Threefish events validated against Threefish.tla."""
import vlib


def pin_vectors():
    r = vlib.run_tlc("VecSkein", workers=1, timeout=600, tag="vec")
    vlib.tlc_must_succeed(r, "VecSkein")
    if r["violated"]:
        raise vlib.ToolError("Threefish.tla / Skein.tla no longer reproduce the published vectors")


NR = {32: 72, 64: 72, 128: 80}


def craft_vectors(c):
    """Spec -> impl: CraftTF.tla turns (key, tweak, round boundary d, internal state e) requests into plaintext / ciphertext
    inputs whose encryption / decryption passes through state e in front of round d.  Returns the path of a vectors file."""
    import os, random, json, re
    rnd = random.Random(c.seed * 7919 + 17)
    reqs, tags = [], []
    for size in (32, 64, 128):
        nw = size // 8
        for d in range(0, NR[size] + 1):
            if not c.thorough and (d + c.seed) % 2:
                continue
            key = [rnd.randrange(256) for _ in range(size)]
            t0, t1 = rnd.getrandbits(64), rnd.getrandbits(64)
            for kind in ("zero-odd", "zero-even", "equal", "ones") + (("allzero", "zero-all-odd") if d % 8 == (c.seed % 8) or c.thorough else ()):
                words = [rnd.getrandbits(64) for _ in range(nw)]
                j = (d + rnd.randrange(nw // 2)) % (nw // 2)
                if kind == "zero-odd":
                    words[2 * j + 1] = 0            # second MIX input 0: outputs equal
                elif kind == "zero-even":
                    words[2 * j] = 0                # first MIX input 0
                elif kind == "equal":
                    words[2 * j + 1] = words[2 * j]
                elif kind == "ones":
                    words[2 * j + rnd.randrange(2)] = 2 ** 64 - 1
                elif kind == "allzero":
                    words = [0] * nw
                else:
                    words = [0 if i % 2 else w for i, w in enumerate(words)]
                e = [b for w in words for b in w.to_bytes(8, "little")]
                reqs.append({"key": key, "t0": [(t0 >> (16 * i)) & 0xffff for i in range(4)], "t1": [(t1 >> (16 * i)) & 0xffff for i in range(4)], "d": d, "e": e})
                tags.append((size, key, t0, t1, "craft-d%d-%s" % (d, kind)))
    wd = c.workdir()
    req = os.path.join(wd, "craft-req.ndjson")
    vlib.write_ndjson(req, reqs)
    r = vlib.run_tlc("CraftTF", env={"TRACE": req}, workers=12, timeout=3000, tag="craft")
    vlib.tlc_must_succeed(r, "CraftTF")
    got = {}
    for ln in r["out"].splitlines():
        ln = ln.strip()
        if ln.startswith('"{') and 'pt' in ln:      # PrintT of a string value: quoted, inner quotes escaped
            o = json.loads(json.loads(ln))
            got[o["l"]] = o
    if len(got) != len(reqs):
        raise vlib.ToolError("CraftTF produced %d of %d crafted inputs" % (len(got), len(reqs)))
    path = os.path.join(wd, "craft-vectors.txt")
    with open(path, "w") as f:
        for i, (size, key, t0, t1, tag) in enumerate(tags):
            o = got[i + 1]
            for which in ("pt", "ct"):
                f.write("%d %s %d %d %s %s-%s\n" % (size, bytes(key).hex(), t0, t1, bytes(o[which]).hex(), tag, which))
    c.cov["crafted_internal_state_inputs"] = 2 * len(reqs)
    return path


def run_tf(c, mode):
    import os, json
    pin_vectors()
    wd = c.workdir()
    allrecs = []
    vectors = craft_vectors(c)
    builds = ["std-rel", "nounroll-rel", "std-dbg"] + (["nosimd-dbg"] if c.thorough else [])
    for b in builds:
        binary = vlib.build(b)
        trace = os.path.join(wd, "tf-%s.ndjson" % b)
        vlib.run_harness(binary, ["tf", "--seed", str(c.seed), "--tier", c.tier, "--cfg", b], out=trace)
        allrecs += vlib.read_ndjson(trace)
        if b in ("std-rel", "nounroll-rel"):
            vlib.run_harness(binary, ["tf-vectors", "--script", vectors, "--cfg", b], out=trace)
            allrecs += vlib.read_ndjson(trace)

    def mutate(e):
        if e["ev"] == "tfb":
            e["ys" if mode == "enc" else "zs"][-3] ^= 2
        elif mode == "enc":
            e["y"][3] ^= 2
        else:
            e["z"][5] ^= 8
    # identical (input, outcome) events from different builds are validated once
    uniq = {}
    for e in allrecs:
        uniq.setdefault(json.dumps({k: v for k, v in e.items() if k not in ("cfg", "tag")}, sort_keys=True), e)
    c.cov["distinct_outcomes_validated_by_tlc"] = len(uniq)
    vlib.validate_stateless(c, "TraceTF", list(uniq.values()), lambda e: {"size": e["size"], "tag": e["tag"], "cfg": e["cfg"], "res": e["res"].split(":")[0]},
                            mutate, "threefish %s" % mode, env={"MODE": mode})
    c.add_events(allrecs, key=lambda e: (e["size"], e["key"], e["t0"], e["t1"], e.get("x", e.get("xs")), e.get("ctor0")), sample=1)
    c.cov["configurations"] = builds
