"""C12: word-wise vector ops equal their scalar meaning on every backend (P1 x P3)."""
import vlib
from props import simd_common

LEVEL = "exploration"


def run(c):
    simd_common.run_simd(c, lambda e: e["op"] in simd_common.C12_OPS)
    c.cov["rule"] = ("a generic exercise::<M: Machine>() calls every arithmetic/bitwise/rotate/shuffle/swap/bswap method the Machine trait bounds require for all 10 vector types "
                     "(plus u128x1 bswap exposed by the concrete types), wrapped in dispatch! so each forced backend (hook H1: SSE2, SSSE3, SSE4.1, AVX, AVX2), the portable backend "
                     "(no_simd) and the no-std compile-time arms run it through the production dispatch path; operands: byte-position patterns, all-ones (carries), walking bits, random. "
                     "Every result is compared by TLC with SimdOps!Sem (scalar meaning per word). distinct = distinct (machine,type,op,operands); the (backend,type,op) triple set is exhaustive "
                     "w.r.t. the trait bounds, operands are sampled.")
    c.assumptions += ["operand values are sampled (structured + random), not exhaustive", "CPUs lacking a feature are simulated by the dispatch override, not by real hardware"]
    return c.finish()
