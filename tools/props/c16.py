"""C16: byte-slice APIs are alignment-independent and stay inside their buffers (P3 over P1; thin TLA+ part)."""
import os
import vlib

LEVEL = "exploration"


def configs(c):
    cf = [("std-rel", 0), ("std-rel", 1), ("std-rel", 2), ("nosimd-rel", 0), ("std-dbg", 0)]
    if c.thorough:
        cf += [("std-rel", 3), ("std-rel", 4), ("std-rel", 5), ("std-dbg", 1), ("nosimd-dbg", 0), ("nostd-sse2", 0), ("nostd-avx2", 0)]
    return cf


def run(c):
    wd = c.workdir()
    total_eps = 0
    for build, force in configs(c):
        binary = vlib.build(build)
        name = "%s/force=%d" % (build, force)
        trace = os.path.join(wd, "c16.ndjson")
        args = ["c16", "--seed", str(c.seed), "--tier", c.tier] + (["--force", str(force)] if force else [])
        vlib.run_harness(binary, args, out=trace, timeout=3000)
        recs = vlib.read_ndjson(trace)
        # canary: the deliberate one-byte over-read at the end of mapped memory must crash and be rejected
        can = os.path.join(wd, "c16-selftest.ndjson")
        vlib.run_harness(binary, ["c16", "--only", "selftest"], out=can)
        canrecs = vlib.read_ndjson(can)
        if not canrecs or canrecs[-1]["ev"] != "crash" or canrecs[-1]["signal"] not in (11, 7):
            raise vlib.ToolError("guard-page self-test did not crash: the unmapped pages are not effective (%s)" % canrecs[-1:])
        full = recs + canrecs
        for ep in vlib.episodes(full):
            if ep[-1]["ev"] not in ("done", "crash"):
                raise vlib.ToolError("episode without done/crash record: %s" % ep[0])
        vlib.write_ndjson(trace, full)
        rej, r = vlib.validate_trace("TraceAlign", trace, workers=4, timeout=1200)
        idx = sorted(l for l, _ in rej)
        if len(full) not in idx:
            raise vlib.ToolError("self-test crash record was not rejected: TraceAlign validation is not binding")
        idx.remove(len(full))
        starts = [i for i, e in enumerate(full) if e["k"] == 0] + [len(full)]
        consumed = 0
        for a, b in zip(starts, starts[1:]):
            badl = [l for l in (idx + [len(full)]) if a < l <= b]
            consumed += (min(badl) - a) if badl else (b - a)
        if r["distinct"] != consumed:
            raise vlib.ToolError("vacuity guard: TLC consumed %d records, expected %d" % (r["distinct"], consumed))
        for l in idx:
            e = full[l - 1]
            ep_start = max(s for s in starts if s < l)
            call = full[l - 2] if e["ev"] in ("ret", "crash") and full[l - 2]["ev"] == "call" else {}
            d = {"group": full[ep_start].get("group"), "api": call.get("api"), "alg": call.get("alg"), "place": call.get("place"), "ev": e["ev"], "cfg": name}
            c.violation(d, full[ep_start:l], "C16 (%s): %s after call %s: %s" % (name, e["ev"], {k: v for k, v in call.items() if k not in ("k", "ev")},
                                                                                  vlib.shorten({k: v for k, v in e.items() if k != "k"}, 12)))
        calls = [e for e in recs if e["ev"] == "call"]
        for e in calls:
            e["cfg"] = name
        c.add_events(calls, key=lambda e: (e["cfg"], e["api"], e["alg"], e["place"], e["len"], e["align"]), sample=1)
        total_eps += len(starts) - 1
    c.cov["child_processes"] = total_eps
    c.cov["configurations"] = ["%s/force=%d" % x for x in configs(c)]
    c.cov["canary_rejected"] = True
    c.cov["rule"] = ("every byte-slice API (apply_keystream of the 7 ciphers, update of the 15 hashers, Threefish encrypt/decrypt_block, guts refill/refill4, read_le/read_be/write_le/write_be of the "
                     "vector types) is called on a slice that (a) ends at the last byte before a PROT_NONE page, (b) starts at the first byte after one, (c) sits at interior alignments between "
                     "canary bytes, for lengths 0..131 (subset in quick), 191..513, per backend (forced SSE2/SSSE3/..., portable); each group runs in a child process so a SIGSEGV/SIGBUS is recorded. "
                     "TLC (TraceAlign.tla) accepts an episode only if every call returned, the result equals the reference on a heap buffer, and canaries are intact. evaluations = calls; "
                     "distinct = distinct (configuration, api, type, placement, length, alignment).")
    c.assumptions += ["the deciding observations are the MMU's (guard pages) and the canaries'; an out-of-bounds access that stays inside mapped memory is visible only through canaries (writes) "
                      "or not at all (reads in the interior placement) - placements (a)/(b) put the unmapped page directly adjacent",
                      "reference results on heap buffers are tied to the specifications by C01, C04-C10, C13, C14"]
    return c.finish()
