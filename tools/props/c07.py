"""C07: Groestl-224/256/384/512 digests conform to the Groestl specification (P1)."""
import vlib
from props import digest_common

LEVEL = "exploration"
PIN = {0, 1, 10, 54, 55, 56, 63, 64, 65, 100, 118, 119, 120, 127, 128, 129, 200, 255}


def run(c):
    # groestl-aesni selects its implementation by CPU detection (std) or at compile time (no-std: sse2 / ssse3 / aes modules)
    builds = [("std-rel", 0), ("nostd-sse2", 0), ("nostd-ssse3", 0), ("nostd-aes", 0)] + ([("std-dbg", 0)] if c.thorough else [])
    pin = PIN if not c.thorough else set(range(0, 256, 3)) | PIN
    digest_common.run_digests(c, "groestl", "TraceGroestl", None, builds, pin=(["Groestl224", "Groestl256", "Groestl384", "Groestl512"], pin))
    c.cov["rule"] = ("one-shot digests of Groestl224/256/384/512 for message lengths 0..2*block+17 (0..4*block+17, three passes with rotating content kinds in thorough; the <=8-bytes-left boundary that adds a padding block, block "
                     "multiples and a rotating subset in quick) and longer random messages; TLC recomputes each with Groestl.tla: the byte-matrix definition (AES S-box derived from "
                     "GF(2^8) inversion + affine map, ShiftBytes for P and Q, MixBytes circulant, P(h+m)+Q(m)+h, output transformation, padding with the block count), independent of the "
                     "implementation's AES-NI bit-sliced form. Groestl.tla is pinned by NIST ShortMsgKAT entries from the repository's data files.")
    c.assumptions += ["messages sampled", "Groestl.tla transcribes the Groestl specification correctly (pinned by NIST KAT digests on every run)"]
    return c.finish()
