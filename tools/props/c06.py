"""C06: JH-224/256/384/512 digests conform to the JH specification (P1)."""
import vlib
from props import digest_common

LEVEL = "exploration"
PIN = {0, 1, 2, 55, 56, 63, 64, 65, 119, 127, 128, 129, 191, 192, 255}


def run(c):
    builds = [("std-rel", 0), ("std-rel", 1), ("nosimd-rel", 0)] + ([("std-dbg", 0), ("std-rel", 2), ("std-rel", 4), ("nostd-sse2", 0), ("nostd-avx2", 0)] if c.thorough else [])
    pin = PIN if not c.thorough else set(range(0, 256, 3)) | PIN
    digest_common.run_digests(c, "jh", "TraceJH", None, builds, pin=(["Jh224", "Jh256", "Jh384", "Jh512"], pin))
    c.cov["rule"] = ("one-shot digests of Jh224/256/384/512 for message lengths 0..145 (0..273, three passes in thorough; block-aligned vs unaligned boundaries plus a rotating subset in quick) and longer "
                     "random messages on the AVX2, forced-SSE2 and portable backends; TLC recomputes each with JH.tla: the NIBBLE-oriented definition of the specification (S-boxes, L over "
                     "GF(2^4), P_d, round constants generated from C_0 by R6, grouping/degrouping, 42-round E8, IVs derived as F8(size||0,0)), i.e. independent of the implementation's "
                     "bit-sliced form and tables. JH.tla is pinned by NIST ShortMsgKAT entries from the repository's data files.")
    c.assumptions += ["messages sampled", "JH.tla transcribes the JH specification correctly (pinned by NIST KAT digests on every run)"]
    return c.finish()
