"""Shared by C12 / C13 (and C03): run the vector-op driver under every backend configuration and validate with TraceSimd."""
import copy
import os
import vlib

C12_OPS = {"add", "add_assign", "xor", "xor_assign", "and", "or", "andnot", "not", "bswap", "and_assign", "or_assign", "eq",
           "rotr7", "rotr8", "rotr11", "rotr12", "rotr16", "rotr20", "rotr24", "rotr25", "rotr32",
           "shuffle1230", "shuffle2301", "shuffle3012", "lane1230", "lane2301", "lane3012",
           "swap1", "swap2", "swap4", "swap8", "swap16", "swap32", "swap64"}


def configs(c):
    cf = [("std-rel", f) for f in range(0, 6)] + [("nosimd-rel", 0), ("nostd-sse2", 0), ("nostd-ssse3", 0), ("nostd-sse41", 0), ("nostd-avx", 0), ("nostd-avx2", 0), ("std-dbg", 1)]
    if c.thorough:
        cf += [("std-dbg", 0), ("std-dbg", 5), ("nosimd-dbg", 0)]
    return cf


def collect(c):
    """Run the simd driver under every configuration; returns list of (cfgname, records)."""
    wd = c.workdir()
    res = []
    for build, force in configs(c):
        binary = vlib.build(build)
        name = "%s/force=%d" % (build, force)
        trace = os.path.join(wd, "simd-%s-%d.ndjson" % (build, force))
        args = ["simd", "--seed", str(c.seed), "--tier", c.tier, "--cfg", name]
        if force:
            args += ["--force", str(force)]
        vlib.run_harness(binary, args, out=trace)
        res.append((name, vlib.read_ndjson(trace)))
        os.remove(trace)
    return res


def run_simd(c, want):
    """want(e) selects the op events this property owns."""
    wd = c.workdir()
    allrecs = []
    for name, recs in collect(c):
        allrecs += [e for e in recs if e["ev"] == "op" and want(e)]
    import json
    # the scalar meaning has no backend parameter: identical (type, op, operands, outcome) records of different backends /
    # configurations are validated once; a backend that deviates produces a distinct record, validated - and rejected - by itself
    uniq = {}
    for e in allrecs:
        uniq.setdefault(json.dumps([e["ty"], e["op"], e["a"], e["b"], e["i"], e["out"], e["res"]]), e)
    recs = list(uniq.values())
    c.cov["distinct_outcomes_validated_by_tlc"] = len(recs)
    for s0 in range(0, len(recs), 40000):      # shards: TLC's JSON loader degrades badly beyond ~40 k records
        part = recs[s0:s0 + 40000]
        n = len(part)
        # canary: a real accepted-looking event with one output bit flipped must be rejected
        can = None
        for e in part[c.seed % n:] + part:
            if e["res"] == "ok" and e["out"]:
                can = copy.deepcopy(e)
                can["out"][0] ^= 4
                can["cfg"] = "canary"
                break
        trace = os.path.join(wd, "simd-all.ndjson")
        vlib.write_ndjson(trace, part + [can])
        rej, r = vlib.validate_trace("TraceSimd", trace, workers=12, timeout=3000, expect_states=2 * (n + 1))
        os.remove(trace)
        idx = sorted(l for l, _ in rej)
        if n + 1 not in idx:
            raise vlib.ToolError("canary op event was not rejected: TraceSimd validation is not binding")
        for l in idx:
            if l == n + 1:
                continue
            e = part[l - 1]
            mach = e["mach"].replace("ppv_lite86::x86_64::", "").replace("ppv_lite86::generic::", "")
            d = {"ty": e["ty"], "op": e["op"], "mach": mach, "res": e["res"].split(":")[0]}
            c.violation(d, [e], "vector op rejected by SimdOps: %s.%s on %s (%s) res=%s a=%s out=%s" %
                        (e["ty"], e["op"], mach, e["cfg"], e["res"], vlib.shorten(e["a"], 16), vlib.shorten(e["out"], 16)))
    c.add_events(allrecs, key=lambda e: (e["mach"], e["ty"], e["op"], e["a"], e["b"], e["i"]), sample=2)
    triples = sorted({(e["mach"].split("::")[-1], e["ty"], e["op"]) for e in allrecs})
    c.cov["backend_type_op_triples"] = len(triples)
    c.cov["machines"] = sorted({e["mach"].replace("ppv_lite86::", "") for e in allrecs})
    c.cov["configurations"] = ["%s/force=%d" % x for x in configs(c)]
    c.cov["canary_rejected"] = True
    return allrecs
