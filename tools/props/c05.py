"""C05: Skein-256/512/1024 digests conform to Skein 1.3 for every message and output length (P1)."""
import vlib
from props import digest_common

LEVEL = "exploration"


def run(c):
    builds = [("std-rel", 0)] + ([("std-dbg", 0), ("nounroll-rel", 0)] if c.thorough else [])
    digest_common.run_digests(c, "skein", "TraceSkein", "VecSkein", builds)
    c.cov["rule"] = ("one-shot digests of Skein256/512/1024<N>: message lengths 0..2*block+17 (0..4*block+17, three passes with rotating content kinds in thorough; all boundary lengths plus a rotating residue subset in quick), longer random "
                     "messages, and N in {1,2,3,7,8,9,16,20,28,31,32,33,48,63,64,65,96,127,128,129,160,200,256,257,300} (every N against empty / 1-byte / one-block / block+1 messages); "
                     "TLC recomputes each with Skein.tla (config UBI, message UBI with first/final/position tweak, counter-mode output) over Threefish.tla. distinct = distinct (alg,N,msg).")
    c.assumptions += ["messages and output lengths sampled", "Skein.tla pinned by Skein 1.3 reference digests of 0xFF and the Threefish NIST vectors on every run"]
    return c.finish()
