"""C09: Threefish encryption conforms to the specification (P1)."""
import vlib
from props import tf_common

LEVEL = "exploration"


def run(c):
    tf_common.run_tf(c, "enc")
    c.cov["rule"] = ("encrypt_block of Threefish256/512/1024 (with_tweak and the zero-tweak NewBlockCipher::new) on: the NIST submission vectors, single-bit keys / tweaks / blocks, all-ones "
                     "(carries everywhere, non-trivial key parity and t0^t1), random triples; built with and without the no_unroll feature; each ciphertext compared by TLC with "
                     "Threefish.tla!Encrypt (transcribed from the Skein 1.3 paper, pinned by published vectors). distinct = distinct (size,key,tweak,block).")
    c.assumptions += ["inputs sampled, not exhaustive", "Threefish.tla is pinned by the NIST submission vectors and by Skein 1.3 digests (VecSkein.tla) on every run"]
    return c.finish()
