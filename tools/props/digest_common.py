"""Shared by C04-C07: one-shot digest events validated against the executable TLA+ hash specifications."""
import os
import vlib


def pin_with_kat_files(c, module, algs, lengths):
    """Feed (message, PUBLISHED digest) pairs from the repository's NIST known-answer files to the spec: any rejection is a
    defect of the specification (tool error), never of the code."""
    import kat
    evs = []
    for alg in algs:
        ks = kat.kats(alg)
        for m, d in ks:
            if len(m) in lengths or len(ks) <= 4:
                evs.append({"k": 0, "ev": "digest", "alg": alg, "n": len(d), "tag": "kat-file", "cfg": "published", "msg": list(m), "out": list(d), "res": "ok"})
    trace = os.path.join(c.workdir(), "pin-%s.ndjson" % module)
    vlib.write_ndjson(trace, evs)
    rej, r = vlib.validate_trace(module, trace, workers=8, timeout=3000, expect_states=2 * len(evs))
    if rej:
        raise vlib.ToolError("%s disagrees with %d published known-answer vectors (specification bug): first %s" % (module, len(rej), rej[0]))
    c.cov["published_vectors_reproduced_by_spec"] = c.cov.get("published_vectors_reproduced_by_spec", 0) + len(evs)


def run_digests(c, family, module, vec_module, builds, pin=None):
    if vec_module:
        r = vlib.run_tlc(vec_module, workers=1, timeout=900, tag="vec")
        vlib.tlc_must_succeed(r, vec_module)
        if r["violated"]:
            raise vlib.ToolError("%s no longer reproduces the published vectors" % vec_module)
    if pin:
        pin_with_kat_files(c, module, pin[0], pin[1])
    wd = c.workdir()
    allrecs = []
    for b, force in builds:
        binary = vlib.build(b)
        name = "%s/force=%d" % (b, force)
        trace = os.path.join(wd, "dg-%s-%d.ndjson" % (b, force))
        args = ["digests", "--family", family, "--seed", str(c.seed), "--tier", c.tier, "--cfg", name]
        if force:
            args += ["--force", str(force)]
        vlib.run_harness(binary, args, out=trace)
        allrecs += vlib.read_ndjson(trace)

    def mutate(e):
        e["out"][len(e["out"]) // 2] ^= 1
    # identical (alg, n, msg) events from different configurations are validated once per distinct output
    uniq = {}
    for e in allrecs:
        uniq.setdefault((e["alg"], e["n"], bytes(e["msg"]), bytes(e["out"]), e["res"]), e)
    recs = list(uniq.values())
    vlib.validate_stateless(c, module, recs, lambda e: {"alg": e["alg"], "n": e["n"], "len": len(e["msg"]), "cfg": e["cfg"], "res": e["res"].split(":")[0]},
                            mutate, "%s digests" % family, timeout=6000)
    c.add_events(allrecs, key=lambda e: (e["alg"], e["n"], e["msg"]), sample=1)
    # very long messages: "for every message" includes lengths beyond 2^32 bits / 2^8..2^32 blocks; they are reached with a
    # fast-forwarded length counter (hook H2) crossed by real data, as in C17, and validated by the same specification
    ctr_module = {"blake": "TraceCtrBlake", "jh": "TraceCtrJH", "groestl": "TraceCtrGroestl", "skein": "TraceCtrSkein"}[family]
    binary = vlib.build("std-rel")
    trace = os.path.join(wd, "ff-%s.ndjson" % family)
    vlib.run_harness(binary, ["c17", "--family", family, "--seed", str(c.seed), "--tier", "quick"], out=trace)
    ff = vlib.read_ndjson(trace)
    if not c.thorough:
        ff = ff[:: 3 if family in ("groestl",) else 2]

    def mutate_ff(e):
        e["out"][0] ^= 0x10
    vlib.validate_stateless(c, ctr_module, ff, lambda e: {"alg": e["alg"], "tag": e["tag"], "ev": "ff", "res": e["res"].split(":")[0]},
                            mutate_ff, "%s long-message digests (fast-forwarded counter)" % family, timeout=6000, workers=12)
    c.add_events(ff, key=lambda e: (e["alg"], e["base"], e["rest"]), sample=1)
    c.cov["long_message_events"] = len(ff)
    c.cov["configurations"] = ["%s/force=%d" % x for x in builds]
    c.cov["distinct_outputs_validated_by_tlc"] = len(recs)
    return allrecs
