"""Shared machinery for the /verif checks: harness builds, TLC runs, trace validation,
known-findings matching, evidence files.  See DESIGN.md section 3."""
import hashlib
import json
import os
import re
import shutil
import subprocess
import sys
import time

ROOT = os.path.dirname(os.path.dirname(os.path.abspath(__file__)))
SPEC = os.path.join(ROOT, "spec")
WORK = os.path.join(ROOT, "work")
HARNESS = os.path.join(ROOT, "harness")
EVID = os.path.join(ROOT, "evidence")
REPLAYS = os.path.join(ROOT, "replays")
KNOWN = os.path.join(ROOT, "known_findings.json")
GUARD_FLAGS = "--cfg cryptocorrosion_verif --check-cfg cfg(cryptocorrosion_verif)"
# The checks rebuild from /repo's working tree.  VERIF_REPO redirects them to a snapshot of the repository (used only for
# background exploration runs started with `vp run --with-repo`, never for the registered commands).
REPO = os.environ.get("VERIF_REPO", "/repo")


def _point_harness_at_repo():
    if REPO == "/repo":
        return
    for name in ("Cargo.toml", "Cargo.lock"):
        path = os.path.join(HARNESS, name)
        txt = open(path).read()
        if "/repo/" in txt:
            open(path, "w").write(txt.replace('"/repo/', '"%s/' % REPO).replace("file:///repo/", "file://%s/" % REPO))

EXIT_OK, EXIT_VIOLATION, EXIT_TOOL = 0, 1, 2


class ToolError(Exception):
    pass


def log(*a):
    print(*a, flush=True)


def sh(cmd, cwd=None, env=None, timeout=None, check=True):
    e = dict(os.environ)
    if env:
        e.update(env)
    p = subprocess.run(cmd, cwd=cwd, env=e, stdout=subprocess.PIPE, stderr=subprocess.STDOUT, text=True, timeout=timeout)
    if check and p.returncode != 0:
        raise ToolError("command failed (%d): %s\n%s" % (p.returncode, " ".join(cmd), p.stdout[-4000:]))
    return p


# ------------------------------------------------------------------ harness builds
VARIANTS = {
    # name: (cargo args, profile dir, extra rustflags)
    "std-dbg": ([], "debug", ""),
    "std-rel": (["--release"], "release", ""),
    "nosimd-dbg": (["--features", "nosimd"], "debug", ""),
    "nosimd-rel": (["--release", "--features", "nosimd"], "release", ""),
    "nounroll-rel": (["--release", "--features", "nounroll"], "release", ""),
    "nostd-sse2": (["--release", "--no-default-features"], "release", ""),
    "nostd-ssse3": (["--release", "--no-default-features"], "release", "-C target-feature=+ssse3"),
    "nostd-sse41": (["--release", "--no-default-features"], "release", "-C target-feature=+ssse3,+sse4.1"),
    "nostd-avx": (["--release", "--no-default-features"], "release", "-C target-feature=+ssse3,+sse4.1,+avx"),
    "nostd-avx2": (["--release", "--no-default-features"], "release", "-C target-feature=+ssse3,+sse4.1,+avx,+avx2"),
    "nostd-aes": (["--release", "--no-default-features"], "release", "-C target-feature=+ssse3,+sse4.1,+aes"),
}


def build(variant):
    """(Re)build the harness against /repo's current working tree; returns the binary path."""
    args, prof, rf = VARIANTS[variant]
    _point_harness_at_repo()
    tdir = os.path.join(WORK, "target", variant)
    env = {"CARGO_NET_OFFLINE": "true"}
    env["RUSTFLAGS"] = (GUARD_FLAGS + " " + rf).strip() + " -Awarnings"
    t0 = time.time()
    p = sh(["cargo", "build", "--offline", "--target-dir", tdir] + args, cwd=HARNESS, env=env, timeout=1800, check=False)
    if p.returncode != 0:
        raise ToolError("harness build failed for %s:\n%s" % (variant, p.stdout[-6000:]))
    log("[build] %s %.1fs" % (variant, time.time() - t0))
    return os.path.join(tdir, prof, "vharness")


def run_harness(binary, args, out=None, timeout=3600, env=None):
    cmd = [binary] + args + (["--out", out] if out else [])
    p = sh(cmd, timeout=timeout, env=env, check=False)
    if p.returncode != 0:
        raise ToolError("harness failed (%d): %s\n%s" % (p.returncode, " ".join(cmd), p.stdout[-4000:]))
    return p.stdout


def run_harness_rc(binary, args, out=None, timeout=3600, env=None):
    """Like run_harness but returns (returncode, output): a crash (signal) of the code under test is data, not a tool error."""
    cmd = [binary] + args + (["--out", out] if out else [])
    p = sh(cmd, timeout=timeout, env=env, check=False)
    return p.returncode, p.stdout


# ------------------------------------------------------------------ TLC
def _tlc_env(extra_env=None, xmx="6g", deque=False):
    opts = "-Xss1g -Xmx%s" % xmx
    if deque:
        opts += " -Dtlc2.tool.queue.IStateQueue=StateDeque"
    e = {"JAVA_TOOL_OPTIONS": opts}
    if extra_env:
        e.update(extra_env)
    return e


_META_SEQ = [0]


def run_tlc(module, cfg=None, env=None, workers=4, timeout=1800, extra=None, xmx="6g", tag="tlc"):
    """Run TLC on spec/<module>.tla; returns dict(out, generated, distinct, depth, ok, errors)."""
    _META_SEQ[0] += 1
    meta = os.path.join(WORK, "tlc", "%s-%d-%d" % (tag, os.getpid(), _META_SEQ[0]))
    os.makedirs(os.path.dirname(meta), exist_ok=True)
    cfg = cfg or (module + ".cfg")
    cmd = ["timeout", str(timeout), "tlc", "-workers", str(workers), "-metadir", meta, "-cleanup",
           "-noGenerateSpecTE", "-config", cfg] + (extra or []) + [module + ".tla"]
    t0 = time.time()
    tenv = _tlc_env(env, xmx=xmx)
    if "/" in module:      # generated module outside spec/: resolve EXTENDS through the library path
        tenv["JAVA_TOOL_OPTIONS"] += " -DTLA-Library=" + SPEC
    p = sh(cmd, cwd=SPEC, env=tenv, check=False)
    shutil.rmtree(meta, ignore_errors=True)
    out = p.stdout
    r = {"out": out, "rc": p.returncode, "wall": time.time() - t0, "generated": 0, "distinct": 0, "depth": 0}
    if p.returncode == 124:
        raise ToolError("TLC timed out after %ds on %s" % (timeout, module))
    m = re.findall(r"(\d[\d,]*) states generated, (\d[\d,]*) distinct states found", out)
    if m:
        r["generated"] = int(m[-1][0].replace(",", ""))
        r["distinct"] = int(m[-1][1].replace(",", ""))
    m = re.search(r"depth of the complete state graph search is (\d+)", out)
    if m:
        r["depth"] = int(m.group(1))
    r["completed"] = "Model checking completed" in out
    r["violated"] = re.findall(r"Error: Invariant (\S+) is violated", out) + re.findall(r"Error: Action property (\S+) is violated", out)
    if "Temporal properties were violated" in out:
        r["violated"].append("temporal")
    r["errors"] = [ln for ln in out.splitlines() if ln.startswith("Error:")]
    return r


def tlc_must_succeed(r, module):
    """For runs that are not supposed to find anything: anything but a clean completion is a tool error."""
    if not r["completed"] or r["errors"]:
        raise ToolError("TLC did not complete cleanly on %s:\n%s" % (module, tail(r["out"])))


def tail(s, n=60):
    return "\n".join(s.splitlines()[-n:])


REJECT_RE = re.compile(r'^<<"REJECT", (.*)>>$')


def parse_rejects(out):
    """REJECT lines printed by the monitors: <<"REJECT", l, ...>> -> list of (l, rest-string)."""
    res = []
    for ln in out.splitlines():
        m = REJECT_RE.match(ln.strip())
        if m:
            body = m.group(1)
            l = int(body.split(",")[0])
            res.append((l, body))
    return res


def validate_trace(module, trace_path, workers=4, timeout=1800, expect_states=None, env=None, xmx="6g"):
    """TLC trace validation (monitor style).  Returns (rejects, tlc result).
    expect_states: exact number of distinct states a fully consumed trace yields (vacuity guard)."""
    e = {"TRACE": trace_path}
    if env:
        e.update(env)
    r = run_tlc(module, env=e, workers=workers, timeout=timeout, xmx=xmx, tag=module)
    if not r["completed"] or r["errors"]:
        raise ToolError("trace validation did not complete on %s (%s):\n%s" % (module, trace_path, tail(r["out"])))
    rej = parse_rejects(r["out"])
    if expect_states is not None and r["distinct"] != expect_states:
        raise ToolError("vacuity guard: %s consumed %d states, expected %d (trace %s)\n%s" %
                        (module, r["distinct"], expect_states, trace_path, tail(r["out"], 20)))
    return rej, r


def validate_stateless(c, module, recs, describe, mutate, label, workers=8, timeout=3000, env=None):
    """Validate independent events (each its own initial state) with monitor spec `module`.
    mutate(copy_of_event) corrupts one recorded output in place (canary).  Returns rejected events (without the canary).
    Large event lists are validated in shards (TLC's JSON loader degrades badly beyond ~40 k records / 24 MB)."""
    if len(recs) > 40000:
        bad = []
        for i in range(0, len(recs), 40000):
            bad += validate_stateless(c, module, recs[i:i + 40000], describe, mutate, label, workers=workers, timeout=timeout, env=env)
        return bad
    wd = c.workdir()
    n = len(recs)
    if n == 0:
        raise ToolError("no events recorded for %s" % module)
    import copy as _copy
    can = None
    for e in recs[c.seed % n:] + recs:
        if e.get("res") == "ok":
            can = _copy.deepcopy(e)
            mutate(can)
            break
    full = recs + ([can] if can else [])
    trace = os.path.join(wd, "%s-%d.ndjson" % (module, _META_SEQ[0]))
    write_ndjson(trace, full)
    rej, r = validate_trace(module, trace, workers=workers, timeout=timeout, expect_states=2 * len(full), env=env)
    os.remove(trace)
    idx = sorted(l for l, _ in rej)
    if can is not None:
        if len(full) not in idx:
            raise ToolError("canary event was not rejected: %s validation is not binding" % module)
        idx.remove(len(full))
        c.cov["canary_rejected"] = True
    bad = []
    for l in idx:
        e = recs[l - 1]
        bad.append(e)
        c.violation(describe(e), [e], "%s: event rejected by %s: %s" % (label, module, shorten(e, 16)))
    return bad


def validate_episodes(c, module, trace, describe, canary, label, workers=8, timeout=3000, env=None):
    """Validate a recorded trace made of episodes (k == 0 starts one) with the monitor spec `module`.
    canary(ep) -> corrupted copy of a prefix of ep (list of events) or None; the corrupted LAST event must be rejected.
    describe(event, first_event_of_episode) -> descriptor dict for known-findings matching / reporting.
    Returns (records, episodes, tlc result, rejected indices)."""
    recs = read_ndjson(trace)
    eps = episodes(recs)
    cans = []
    full = list(recs)
    pos0 = 0
    for ep in eps:
        if len(cans) >= 3:
            break
        cn = canary(ep)
        if cn:
            cans.append((pos0, len(cn), len(full)))
            full += cn
        pos0 += len(ep)
    write_ndjson(trace, full)
    rej, r = validate_trace(module, trace, workers=workers, timeout=timeout, env=env)
    allidx = sorted(l for l, _ in rej)
    idx = [l for l in allidx if l <= len(recs)]
    conclusive = 0
    for (o, ln, cstart) in cans:
        if any(o < l <= o + ln for l in idx):
            continue          # the original prefix itself is rejected: this canary says nothing
        conclusive += 1
        if (cstart + ln) not in allidx:
            raise ToolError("canary episode was not rejected at its corrupted event: %s trace validation is not binding" % module)
    c.cov["canaries_conclusive"] = c.cov.get("canaries_conclusive", 0) + conclusive
    # vacuity guard: every event of every episode must have been consumed up to its first rejection
    starts = [i for i, e in enumerate(full) if e["k"] == 0] + [len(full)]
    consumed = 0
    for a_, b_ in zip(starts, starts[1:]):
        bad = [l for l in allidx if a_ < l <= b_]
        consumed += (min(bad) - a_) if bad else (b_ - a_)
    if r["distinct"] != consumed:
        raise ToolError("vacuity guard: TLC consumed %d events of %s, expected %d" % (r["distinct"], module, consumed))
    for l in idx:
        e = full[l - 1]
        ep_start = max(s_ for s_ in starts if s_ < l)
        first = full[ep_start]
        d = describe(e, first)
        txt = "%s: event %d of episode %s rejected by %s: %s" % (label, e["k"], shorten({k: v for k, v in first.items() if k != "st"}, 8), module,
                                                                 shorten({k: v for k, v in e.items() if k != "st"}, 12))
        c.violation(d, full[ep_start:l], txt)
    return recs, eps, r, idx


def split_trace(path, max_events=40000, max_bytes=24 << 20):
    """Split an ndjson trace into shard files at episode boundaries (records with "k":0 start an episode) without loading it;
    a shard ends at the first boundary after max_events records or max_bytes bytes (TLC holds the parsed shard in memory).
    Returns [(shard path, first record index, record count)]."""
    shards = []
    out = None
    count = 0
    start = 0
    total = 0
    nbytes = 0
    with open(path) as f:
        for ln in f:
            if not ln.strip():
                continue
            if out is None or ((count >= max_events or nbytes >= max_bytes) and ln.startswith('{"k":0,')):
                nbytes = 0
                if out is not None:
                    out.close()
                    shards.append((out.name, start, count))
                    start += count
                out = open("%s.shard%d" % (path, len(shards)), "w")
                count = 0
            out.write(ln)
            nbytes += len(ln)
            count += 1
            total += 1
    if out is not None:
        out.close()
        shards.append((out.name, start, count))
    return shards


def read_ndjson(path):
    with open(path) as f:
        return [json.loads(ln) for ln in f if ln.strip()]


def write_ndjson(path, recs):
    with open(path, "w") as f:
        for r in recs:
            f.write(json.dumps(r, separators=(",", ":")) + "\n")


def shard(recs, n):
    """Split a list of episodes (lists of records) into n roughly equal shards."""
    shards = [[] for _ in range(n)]
    for i, ep in enumerate(recs):
        shards[i % n].append(ep)
    return [s for s in shards if s]


def episodes(recs):
    """Group a flat event list into episodes (k == 0 starts one)."""
    eps = []
    for r in recs:
        if r.get("k", 0) == 0 or not eps:
            eps.append([])
        eps[-1].append(r)
    return eps


def digest(obj):
    return hashlib.sha256(json.dumps(obj, sort_keys=True).encode()).hexdigest()[:16]


# ------------------------------------------------------------------ known findings
def load_known():
    if not os.path.exists(KNOWN):
        return []
    with open(KNOWN) as f:
        return json.load(f)["findings"]


def match_known(prop, desc):
    """desc: dict describing a rejected event.  An `open` entry matches when every key of its
    signature equals the descriptor's value (lists = any-of).  `fixed` entries suppress nothing."""
    for k in load_known():
        if k.get("status") != "open" or k.get("property") != prop:
            continue
        sig = k.get("signature", {})
        ok = True
        for key, want in sig.items():
            have = desc.get(key)
            if isinstance(want, list):
                ok = ok and have in want
            else:
                ok = ok and have == want
        if ok:
            return k
    return None


# ------------------------------------------------------------------ the check object
class Check:
    def __init__(self, prop, level, tier=None, seed=None):
        self.prop = prop
        self.level = level
        self.tier = tier or os.environ.get("VERIF_TIER", "quick")
        if self.tier not in ("quick", "thorough"):
            self.tier = "quick"
        self.seed = int(seed if seed is not None else os.environ.get("VERIF_SEED", "1"))
        self.t0 = time.time()
        self.cov = {"evaluations": 0, "distinct_nontrivial": 0, "rule": "", "samples": []}
        self.assumptions = []
        self.violations = []   # (replay path, text)
        self.known = {}        # finding id -> text
        self.notes = []
        os.makedirs(WORK, exist_ok=True)
        os.makedirs(EVID, exist_ok=True)

    @property
    def thorough(self):
        return self.tier == "thorough"

    def workdir(self):
        d = os.path.join(WORK, "run", "%s-%s-%d" % (self.prop, self.tier, os.getpid()))
        os.makedirs(d, exist_ok=True)
        return d

    def add_model(self, r, what):
        """Account a TLC model-checking run in the coverage."""
        self.cov["states"] = self.cov.get("states", 0) + r["distinct"]
        self.cov["transitions"] = self.cov.get("transitions", 0) + r["generated"]
        self.cov.setdefault("models", []).append({"model": what, "distinct_states": r["distinct"], "states_generated": r["generated"],
                                                  "depth": r["depth"], "wall_s": round(r["wall"], 1)})

    def add_events(self, recs, nontrivial=lambda r: True, key=lambda r: r, sample=2):
        """Account validated events: evaluations, distinct non-trivial (by content hash)."""
        seen = self.cov.setdefault("_seen", set())
        for r in recs:
            self.cov["evaluations"] += 1
            if nontrivial(r):
                h = digest(key(r))
                if h not in seen:
                    seen.add(h)
                    self.cov["distinct_nontrivial"] += 1
        for r in recs[:sample]:
            if len(self.cov["samples"]) < 12:
                self.cov["samples"].append(shorten(r))

    def violation(self, desc, replay_recs, text):
        """Report a rejected event/episode unless it is a listed known finding."""
        k = match_known(self.prop, desc)
        if k is not None:
            self.known[k["id"]] = k["what"]
            return False
        d = os.path.join(REPLAYS, self.prop)
        os.makedirs(d, exist_ok=True)
        path = os.path.join(d, "%s-%d-%d.ndjson" % (self.tier, self.seed, len(self.violations)))
        hdr = {"replay": {"property": self.prop, "tier": self.tier, "seed": self.seed, "desc": desc, "text": text}}
        write_ndjson(path, [hdr] + list(replay_recs))
        self.violations.append((path, text))
        log("VIOLATION property=%s replay=%s" % (self.prop, path))
        log("  detail: %s" % text)
        return True

    def finish(self):
        for kid, what in sorted(self.known.items()):
            log("KNOWN-FINDING: property=%s %s" % (self.prop, what))
        cov = {k: v for k, v in self.cov.items() if not k.startswith("_")}
        cov["known_findings_seen"] = sorted(self.known.keys())
        if self.notes:
            cov["notes"] = self.notes
        ev = {"property_id": self.prop, "tier": self.tier, "seed": self.seed, "level": self.level, "coverage": cov,
              "assumptions": self.assumptions, "wall_s": round(time.time() - self.t0, 1), "violations": len(self.violations)}
        with open(os.path.join(EVID, self.prop + os.environ.get("VERIF_EVIDENCE_SUFFIX", "") + ".json"), "w") as f:
            json.dump(ev, f, indent=1)
        shutil.rmtree(self.workdir(), ignore_errors=True)
        log("[%s] tier=%s seed=%d evaluations=%d distinct=%d states=%s violations=%d wall=%.0fs" %
            (self.prop, self.tier, self.seed, cov["evaluations"], cov["distinct_nontrivial"], cov.get("states"), len(self.violations), ev["wall_s"]))
        return EXIT_VIOLATION if self.violations else EXIT_OK


def shorten(r, maxlen=24):
    """Abbreviate long arrays in a sample record."""
    if isinstance(r, dict):
        return {k: shorten(v, maxlen) for k, v in r.items()}
    if isinstance(r, list):
        if len(r) > 8 and all(isinstance(x, int) and 0 <= x < 256 for x in r):
            h = "".join("%02x" % x for x in r[:maxlen])
            return "bytes[%d]:%s%s" % (len(r), h, "..." if len(r) > maxlen else "")
        if len(r) > maxlen:
            return [shorten(x, maxlen) for x in r[:maxlen]] + ["...(%d more)" % (len(r) - maxlen)]
        return [shorten(x, maxlen) for x in r]
    return r


def main_wrapper(fn):
    """Run a check function; map tool errors to exit 2 (never a VIOLATION)."""
    try:
        rc = fn()
    except ToolError as e:
        log("TOOL-ERROR: %s" % e)
        rc = EXIT_TOOL
    except subprocess.TimeoutExpired as e:
        log("TOOL-ERROR: timeout %s" % e)
        rc = EXIT_TOOL
    sys.exit(rc)
