"""Reader for the repository's published known-answer files (blobby format: 'blobbyN' + (len, data)*; pairs msg, digest)."""
import glob
import os


def read_blobby(path):
    data = open(path, "rb").read()
    assert data[:6] == b"blobby", path
    n = int(chr(data[6]))
    pos = 7
    blobs = []
    while pos < len(data):
        ln = int.from_bytes(data[pos:pos + n], "little")
        pos += n
        blobs.append(data[pos:pos + ln])
        pos += ln
    return [(blobs[i], blobs[i + 1]) for i in range(0, len(blobs) - 1, 2)]


KAT_FILES = {
    "Blake224": "hashes/blake/tests/data/blake224.blb", "Blake256": "hashes/blake/tests/data/blake256.blb",
    "Blake384": "hashes/blake/tests/data/blake384.blb", "Blake512": "hashes/blake/tests/data/blake512.blb",
    "Groestl224": "hashes/groestl/tests/data/groestl224.blb", "Groestl256": "hashes/groestl/tests/data/groestl256.blb",
    "Groestl384": "hashes/groestl/tests/data/groestl384.blb", "Groestl512": "hashes/groestl/tests/data/groestl512.blb",
    "Jh224": "hashes/jh/tests/data/ShortMsgKAT_224.blb", "Jh256": "hashes/jh/tests/data/ShortMsgKAT_256.blb",
    "Jh384": "hashes/jh/tests/data/ShortMsgKAT_384.blb", "Jh512": "hashes/jh/tests/data/ShortMsgKAT_512.blb",
}


def kats(alg, repo=os.environ.get("VERIF_REPO", "/repo")):
    return read_blobby(os.path.join(repo, KAT_FILES[alg]))


if __name__ == "__main__":
    for a in KAT_FILES:
        k = kats(a)
        print(a, len(k), [len(m) for m, d in k[:6]], "...", [len(m) for m, d in k[-3:]], len(k[0][1]))
    for f in glob.glob("/repo/hashes/skein/tests/data/*") + glob.glob("/repo/hashes/jh/tests/data/Long*"):
        k = read_blobby(f)
        print(f, len(k), [len(m) for m, d in k[:4]], [len(m) for m, d in k[-2:]])
