#!/usr/bin/env python3
"""MANIFEST.setup_cmd: build every harness variant offline from /repo's working tree and smoke-test TLC."""
import os
import sys

sys.path.insert(0, os.path.dirname(os.path.abspath(__file__)))
import vlib  # noqa: E402


def main():
    os.makedirs(vlib.WORK, exist_ok=True)
    for v in vlib.VARIANTS:
        vlib.build(v)
    r = vlib.run_tlc("VecChaCha", workers=1, timeout=300, tag="setup")
    vlib.tlc_must_succeed(r, "VecChaCha")
    print("setup ok")


if __name__ == "__main__":
    vlib.main_wrapper(lambda: (main(), 0)[1])
