#!/usr/bin/env python3
"""Rewrite the last column of DESIGN.md's table A.3 (validated / wall) from /verif/evidence/<id>.json."""
import json, os, re
ROOT = os.path.dirname(os.path.dirname(os.path.abspath(__file__)))
p = os.path.join(ROOT, "DESIGN.md")
s = open(p).read().split("\n")
out = []
for ln in s:
    m = re.match(r"^\| (C\d\d) \|(.*)\|([^|]*)\|$", ln)
    if m and os.path.exists(os.path.join(ROOT, "evidence", m.group(1) + ".json")) and "| caught by" not in ln and ln.count("|") == 5:
        ev = json.load(open(os.path.join(ROOT, "evidence", m.group(1) + ".json")))
        cov = ev.get("coverage", {})
        n = cov.get("evaluations")
        if ev.get("tier", cov.get("tier")) in (None, "quick") and n is not None:
            ln = "| %s |%s| %s validated / %d s |" % (m.group(1), m.group(2), "{:,}".format(n).replace(",", " "), round(ev.get("wall_s", cov.get("wall_s", 0))))
    out.append(ln)
open(p, "w").write("\n".join(out))
