#!/usr/bin/env python3
"""Run checks against a seeded property-breaking change:  seeded_run.py <seeded dir> <check id> [<check id> ...]
Applies <dir>/patch.diff to /repo, runs the quick checks, undoes the change (git checkout -- .), records who caught it."""
import json
import os
import subprocess
import sys
import time

REPO = "/repo"
ROOT = os.path.dirname(os.path.dirname(os.path.abspath(__file__)))


def main():
    d = os.path.abspath(sys.argv[1])
    checks = sys.argv[2:]
    patch = os.path.join(d, "patch.diff")
    st = subprocess.run(["git", "-C", REPO, "status", "--porcelain"], capture_output=True, text=True).stdout.strip()
    if st:
        sys.exit("refusing: /repo has uncommitted changes:\n" + st)
    subprocess.run(["git", "-C", REPO, "apply", patch], check=True)
    results = {}
    try:
        for cid in checks:
            t0 = time.time()
            env = dict(os.environ, VERIF_EVIDENCE_SUFFIX=".seeded")
            p = subprocess.run(["python3", os.path.join(ROOT, "tools", "check.py"), cid, "--tier", "quick"], cwd=ROOT, capture_output=True, text=True, env=env)
            viol = [ln for ln in p.stdout.splitlines() if ln.startswith("VIOLATION")]
            detail = [ln.strip() for ln in p.stdout.splitlines() if ln.strip().startswith("detail:")]
            results[cid] = {"exit": p.returncode, "violations": len(viol), "first_detail": detail[:2], "wall_s": round(time.time() - t0, 1),
                            "tool_error": [ln for ln in p.stdout.splitlines() if ln.startswith("TOOL-ERROR")][:1]}
            print(cid, "exit", p.returncode, "violations", len(viol), detail[:1], flush=True)
    finally:
        # `git apply -R` also removes files the patch created; `git checkout -- .` then restores anything else
        subprocess.run(["git", "-C", REPO, "apply", "-R", patch])
        subprocess.run(["git", "-C", REPO, "checkout", "--", "."], check=True)
    out = os.path.join(d, "detection.json")
    prev = json.load(open(out)) if os.path.exists(out) else {}
    prev.update(results)
    json.dump(prev, open(out, "w"), indent=1)


if __name__ == "__main__":
    main()
