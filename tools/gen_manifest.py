#!/usr/bin/env python3
"""Generates /verif/MANIFEST.json from the table below and validates it against the schema."""
import json
import os
import subprocess

ROOT = os.path.dirname(os.path.dirname(os.path.abspath(__file__)))

CLAIMED = {
    "C01": dict(level="exploration", design="5/C01", technique="trace validation against an executable TLA+ specification of ChaCha (TLC as oracle)",
                text="Recorded apply_keystream events of all 7 cipher types over structured and random (key, nonce, position, length, data) samples are "
                     "validated by TLC against ChaChaFn.tla, an independent transcription of the ChaCha/HChaCha definitions pinned by RFC 7539 and "
                     "XChaCha-draft vectors; inputs are sampled, so this is exploration with an independent oracle, not a proof over all keys.",
                note="Trusted: TLC, the transcription in ChaChaFn.tla (pinned by published vectors on every run), the harness recording inputs/outputs faithfully (canary event shows the binding is live)."),
    "C02": dict(level="model_checking", design="5/C02", technique="TLC model checking of an implementation-shaped TLA+ stream model (small constants exhaustive, real constants graph) + Apalache inductive invariant of its closed form at the real constants + replay of every graph edge on the code + TLC trace validation against the ideal spec",
                text="Stream.tla mirrors Buffer::try_apply_keystream/seek/current_pos section by section with the ideal position as ghost state; TLC checks all histories at scaled constants "
                     "(invariants PosCoherent, BufferedBlockRight, NonceIntact, LenCoherent; action properties OutputAtAbsolutePos, SeekTotal, CurrentPosRight, NoPanic, FailedApplyKeepsPos). "
                     "The same module at the real constants yields a labelled state graph whose every edge is executed on the real ciphers in release and debug builds, with Buffer's internals "
                     "compared to the model state after each call, and all recorded histories (graph-derived, each ending in a probe, and random) are validated by TLC against the ideal specification. "
                     "A recursion-free closed form of the bookkeeping (apalache/StreamCF.tla) is shown by TLC to equal Stream.tla in every reachable scaled state and its invariant is proved inductive by Apalache "
                     "at the real constants (2^32, 2^64, block 64) for unbounded histories: exhaustion exact, reported position = position, nonce word intact.",
                note="Trusted: TLC; scaling argument (small constants) + depth bound (real constants); ChaChaFn.tla as keystream definition; harness event recording (canary episodes rejected)."),
    "C11": dict(level="model_checking", design="5/C11", technique="TLC model checking of Stream.tla exhaustion rules + edge replay at the keystream limits + TLC trace validation against the ideal spec",
                text="Same machinery as C02 with alphabets concentrated at 2^38 bytes, block 2^32 and 2^64-1: TLC proves on the scaled model that apply fails iff the request exceeds the keystream, that a failed "
                     "apply is a no-op, that the nonce word never changes and that seek beyond the end is an error; every edge of the real-constant graph and seeded histories (incl. the 2^64-block end entered "
                     "through public fields) are executed on the code and validated by TLC against the ideal spec.",
                note="Trusted: as C02; the teleport into the 2^64-block end relies on Buffer's public fields meaning what Stream.tla says (checked by the drift comparison on all graph edges)."),
    "C14": dict(level="model_checking", design="5/C14", technique="TLC exhaustive check of the refill/refill4 counter model at scaled word size + Apalache check of the same law at the real word size for all counter values + TLC trace validation of refill events against ChaChaFn",
                text="MCGuts.tla models refill_wide's lane arithmetic (d0123, add_pos) and the single-block increment; TLC checks Refill4Impl = Refill^4 for every counter and stream-id value of a scaled word. "
                     "Recorded refill/refill4 calls of the real code at all carry points, double rounds 0..10, every sequence of three operations from {refill, refill4, set counter, set stream id}, structured keys, per build profile, forced SIMD backend (hook H1), the portable backend and a compile-time AVX2 build are validated block by block by TLC.",
                note="Trusted: TLC, ChaChaFn.tla (published vectors), uninterpreted-block abstraction in the small model, harness recording (canary)."),
    "C15": dict(level="model_checking", design="5/C15", technique="TLC exhaustive check of parameter/equality laws over all pairs of scaled states + TLC trace validation of set/get/eq/refill events",
                text="MCGuts.tla: get/set round trip, isolation and exactness of stream32_eq/stream64_eq are checked by TLC over all pairs of states at a scaled word size; the same calls on the real code "
                     "(boundary and random 64-bit values, single-bit differences in each of the 12 words, states built directly vs. via setters) are validated by TLC against TraceGuts.tla.",
                note="Trusted: TLC, ChaChaFn.tla, sampled values at the real word size."),
    "C12": dict(level="exploration", design="5/C12", technique="trace validation of every (backend, vector type, operation) against a TLA+ scalar-semantics specification (TLC as oracle)",
                text="Every word-wise operation required by the Machine trait bounds is executed for all 10 vector types on SSE2, SSSE3, SSE4.1, AVX, AVX2 (forced through hook H1), the portable backend and the "
                     "no-std compile-time arms; TLC compares each result with SimdOps.tla, which states the per-word scalar meaning. The (backend,type,op) set is exhaustive w.r.t. the trait bounds; operands are sampled.",
                note="Trusted: TLC, SimdOps.tla as the meaning of the operation names, dispatch override as a stand-in for older CPUs, harness recording (canary)."),
    "C13": dict(level="exploration", design="5/C13", technique="trace validation of data-movement operations against SimdOps.tla (TLC as oracle)",
                text="Lanes, storage reinterpretation, insert/extract at all indices, transpose4, to_scalars and little-/big-endian byte I/O at offsets 0..15 are executed on every backend with byte-position "
                     "operands and compared by TLC with SimdOps.tla (identity on the little-endian byte image, per-word byte reversal for big-endian I/O, lane transpose).",
                note="Trusted: as C12."),
    "C19": dict(level="exploration", design="5/C19", technique="trace validation of every public ppv-null method against lane-wise scalar semantics in TLA+ (TLC as oracle)",
                text="Every public method of the five ppv-null types is called on structured and random operands in debug and release builds; TLC compares results with TraceNull.tla (scalar lane semantics) and rejects panics.",
                note="Trusted: TLC, the scalar semantics in TraceNull.tla/SimdOps.tla, sampled operands, harness recording (canary)."),
    "C04": dict(level="exploration", design="5/C04", technique="trace validation of digests against an executable TLA+ specification of BLAKE (TLC as oracle)",
                text="Digests of all four BLAKE variants over a sweep of message lengths (every residue, both final-block boundaries) on the AVX2, SSE2 and portable backends are recomputed by TLC from Blake.tla, "
                     "an independent transcription of the submission document pinned by its published vectors.",
                note="Trusted: TLC, Blake.tla (published vectors each run), sampled messages, harness recording (canary)."),
    "C05": dict(level="exploration", design="5/C05", technique="trace validation of digests against executable TLA+ specifications of Skein/Threefish (TLC as oracle)",
                text="Digests of Skein256/512/1024<N> over message-length sweeps and every output length 1..136 bytes plus 160/200/256/257/300 and > 256 output blocks (8200 bytes) are recomputed by TLC from Skein.tla/Threefish.tla, "
                     "pinned by Skein 1.3 reference digests and the Threefish NIST vectors.",
                note="Trusted: TLC, Skein.tla/Threefish.tla (published vectors each run), sampled messages and output lengths."),
    "C06": dict(level="exploration", design="5/C06", technique="trace validation of digests against an executable TLA+ specification of JH in its nibble-oriented definition (TLC as oracle)",
                text="Digests of all four JH variants over message-length sweeps on the AVX2, SSE2 and portable backends are recomputed by TLC from JH.tla, which follows the specification's nibble-oriented definition "
                     "(constants generated, IVs derived) and is pinned by NIST KAT digests.",
                note="Trusted: TLC, JH.tla (NIST KATs each run), sampled messages."),
    "C07": dict(level="exploration", design="5/C07", technique="trace validation of digests against an executable TLA+ specification of Groestl on the byte matrix (TLC as oracle)",
                text="Digests of all four Groestl variants over message-length sweeps (incl. the <=8-bytes-left boundary) are recomputed by TLC from Groestl.tla (byte-matrix definition, S-box derived), pinned by NIST KAT digests.",
                note="Trusted: TLC, Groestl.tla (NIST KATs each run), sampled messages."),
    "C09": dict(level="exploration", design="5/C09", technique="trace validation of encrypt_block events against Threefish.tla (TLC as oracle), including inputs crafted by the specification (CraftTF.tla) to put chosen internal states in front of every round",
                text="Ciphertexts of Threefish256/512/1024 for structured and random (key, tweak, block) triples, with and without no_unroll, are recomputed by TLC from Threefish.tla (pinned by NIST vectors). CraftTF.tla runs the specification backwards/forwards from chosen internal states (zero, equal, all-ones words in front of each round) and the resulting plaintexts/ciphertexts are fed to the real cipher.",
                note="Trusted: TLC, Threefish.tla, sampled inputs."),
    "C10": dict(level="exploration", design="5/C10", technique="trace validation of both composition orders and of decrypt_block against an independently written TLA+ inverse, including spec-crafted inputs (CraftTF.tla) that reach chosen internal states",
                text="For every sampled triple D(E(x)) = x and E(D(x)) = x on the real code and D(x) equals Threefish.tla!Decrypt, an inverse written independently of Encrypt. Inputs include plaintexts and ciphertexts computed by CraftTF.tla so that encryption and decryption pass through internal states with zero / equal / all-ones words in front of every round (unreachable by sampling: 2^-64 per word).",
                note="Trusted: TLC, Threefish.tla, sampled inputs."),
    "C08": dict(level="model_checking", design="5/C08", technique="TLC model checking of block-buffered hasher models (all partitions, clone/reset) + replay of every edge of the real-size graph on 15 hash types + TLC trace validation with ghost messages",
                text="HashBuf.tla / HashInst.tla are checked exhaustively by TLC at a scaled block size (state is a function of the message, digests equal OneShot(ghost message), instance independence, per-kind "
                     "finalisation case split equals an independent padding rule). MCHashReal's labelled graph at the real block sizes is replayed edge by edge on all 15 hash types, and these plus random histories "
                     "are validated by TLC with TraceHashBuf.tla, which tracks every instance's ghost message through update/clone/reset/finalize_reset.",
                note="Trusted: TLC; abstract compression in the models; one-shot digests tied to the specifications by C04-C07; harness recording (canary episodes)."),
    "C17": dict(level="model_checking", design="5/C17", technique="TLC model checking of counter logic at scaled word widths + TLC trace validation of fast-forwarded and really streamed boundary crossings against the hash specifications",
                text="HashBuf.tla's CounterExact/FinalRight are checked by TLC for every length across several wraps of a scaled counter word. On the real code, hook H2 places the counter just below 2^32 / 2^64 bits, "
                     "2^8 / 2^16 / 2^32 blocks, 2^32 bytes and the real increment code crosses the boundary; 512 MiB (BLAKE, JH) and 4 GiB (Skein) messages are really streamed with a checkpoint, and single update calls of 2^32+k bytes are checkpointed and compared with the chunk-fed instance. "
                     "TLC recomputes every digest from (chaining value, amount absorbed, remaining bytes) with Blake/JH/Groestl/Skein.tla.",
                note="Trusted: TLC, the hash specifications, hook H2 accessors, soundness of fast-forward (compression conformance is per (h, m, t) triple)."),
    "C03": dict(level="model_checking", design="5/C03", technique="TLC exhaustive check of the dispatch decision procedure + conformance of observed Machine selections + cross-configuration trace validation against configuration-free specifications",
                text="Dispatch.tla states what each macro selects for every build mode and feature level (Total, Safe, Best checked exhaustively); the Machine actually selected in every build / under every forced level is "
                     "observed and must equal it. All dispatching algorithms (ChaCha wide+narrow, guts, BLAKE x4, JH x4, every vector op) run on identical inputs under 11 (quick; plus the three middle rungs of the no-std selection ladder for the selection record, vector ops and keystream) / 16 (thorough) configurations and every distinct "
                     "outcome is validated by TLC against specifications that have no configuration variable; panics and crashes are outcomes.",
                note="Trusted: TLC, the function specifications (published vectors), dispatch override as stand-in for older CPUs, sampled inputs."),
    "C16": dict(level="exploration", design="5/C16", technique="guard-page / canary harness in child processes; recorded call/return/crash traces validated by TLC against address-free specifications (thin TLA+ part)",
                text="Every byte-slice API - data, constructor key/nonce arguments and digest output buffers - is called on slices ending at (and 1..15 bytes before) the last byte before, and starting at the first byte after, an unmapped page and at interior alignments between canaries, per backend; a child "
                     "process per group makes SIGSEGV/SIGBUS an observed outcome. TraceAlign.tla accepts only episodes in which every call returned, results equal the heap-buffer reference and canaries are intact. "
                     "The TLA+ part is deliberately thin: the deciding observation is the MMU's.",
                note="Trusted: mmap/mprotect semantics (self-test: a deliberate 1-byte over-read must crash on every run), canaries, reference results validated by the other checks."),
    "C18": dict(level="model_checking", design="5/C18", technique="TLC model checking of the once-initialisation protocol + TLC trace validation of interleaved multi-instance histories (product of ideal specs) and of cold multi-threaded first-use results",
                text="Concurrency.tla (Once cells, racy feature cache) is explored exhaustively by TLC. On the code, one thread interleaves mixed cipher/hasher instances and TLC validates with the product monitor TraceSystem.tla; "
                     "hundreds of cold processes release 2..64 threads making the first calls into every algorithm, 4..48 threads repeat their own hash / cipher operations concurrently (steady state), and every distinct (input, output) is validated against the function specifications.",
                note="Trusted: TLC; the OS scheduler picks real interleavings (a narrow race can be missed); lazy_static/Once/std_detect are modelled, not hooked."),
    "C20": dict(level="exploration", design="5/C20", technique="TLC enumeration of the feature lattice (closures of every request, generated from cargo metadata) realised with cargo check/build; functional events of feature-selected builds validated by configuration-free specifications",
                text="Features.tla plus a module generated from cargo metadata let TLC enumerate every feature request of every crate and fold them onto closures (57 configurations today); each is built with cargo on the stable "
                     "toolchain (exhaustive over the lattice), and so is every workspace dependency's declared feature as seen by its dependents (feature unification). ChaCha/BLAKE/Groestl/Threefish events from std, no_simd, no-std and no_unroll builds are validated by the same specifications. The TLA+ part is thin: cargo's exit status decides.",
                note="Trusted: cargo; TLC for enumeration/closure; x86-64 + this sandbox's stable toolchain only. One open known finding (F16: crypto-simd packed_simd needs a nightly-only dependency)."),
}

PENDING = {  # properties whose checks are not built yet in this tree (kept current as checks land)
}

ALL = ["C%02d" % i for i in range(1, 21)]


def main():
    checks = []
    for pid in ALL:
        if pid not in CLAIMED:
            continue
        c = CLAIMED[pid]
        checks.append({
            "property_id": pid,
            "quick_cmd": "python3 tools/check.py %s --tier quick" % pid,
            "thorough_cmd": "python3 tools/check.py %s --tier thorough" % pid,
            "evidence_file": "/verif/evidence/%s.json" % pid,
            "replay_cmd_template": "python3 tools/check.py %s --replay {path}" % pid,
            "engine": "tlc-trace",
            "level_claimed": {"category": c["level"], "text": c["text"], "design_ref": "DESIGN.md section " + c["design"]},
            "level_note": c["note"],
            "technique": c["technique"],
        })
    na = [{"property_id": pid, "reason": PENDING.get(pid, "check not built yet in this tree; planned per DESIGN.md section 5 (the list is updated as checks land)")}
          for pid in ALL if pid not in CLAIMED]
    commits = []
    hf = os.path.join(ROOT, "hooks_commits.txt")
    if os.path.exists(hf):
        commits = [ln.split()[0] for ln in open(hf) if ln.strip() and not ln.startswith("#")]
    m = {
        "version": 1,
        "setup_cmd": "python3 tools/setup.py",
        "hooks": {
            "guard": "--cfg cryptocorrosion_verif",
            "enable": "RUSTFLAGS='--cfg cryptocorrosion_verif --check-cfg cfg(cryptocorrosion_verif)' (set by tools/vlib.py for every harness build; harness/.cargo/config.toml carries the same flags)",
            "baseline_off_cmd": "cd /repo && cargo test --workspace --no-fail-fast --offline",
            "source_commits": commits,
            "add_only": True,
        },
        "engines": [
            {"name": "tlc-trace", "path": "/verif/tools/check.py", "serves_properties": [c["property_id"] for c in checks],
             "kind_free_text": "TLA+ specifications in /verif/spec checked by TLC; Rust harness /verif/harness records events from the real crates; "
                               "TLC validates recorded traces (impl->spec) and generates behaviours that are replayed on the code (spec->impl)"},
        ],
        "checks": checks,
        "not_applicable": na,
        "notes": "Exit codes: 0 held (KNOWN-FINDING lines possible), 1 VIOLATION, 2 tooling error/timeout. VERIF_SEED seeds every random choice.",
    }
    with open(os.path.join(ROOT, "MANIFEST.json"), "w") as f:
        json.dump(m, f, indent=1)
    subprocess.run(["python3-vt", "-c", "import json,jsonschema;jsonschema.validate(json.load(open('%s/MANIFEST.json')),json.load(open('/root/.vp/MANIFEST.schema.json')));print('MANIFEST valid')" % ROOT], check=True)


if __name__ == "__main__":
    main()
