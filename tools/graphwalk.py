"""TLC state-graph dump (-dump dot,actionlabels) -> edge-covering walks (spec -> impl direction)."""
import re
from collections import defaultdict, deque

NODE_RE = re.compile(r'^(-?\d+) \[label="(.*?)"(?:,tooltip="(?:.*?)")?(,style = filled)?\]\s*;?$')
EDGE_RE = re.compile(r'^(-?\d+) -> (-?\d+) \[label="([^"]*)"')


class Graph:
    def __init__(self, path):
        self.nodes = {}      # id -> label text
        self.inits = []
        self.edges = []      # (src, dst, label)
        self.out = defaultdict(list)
        with open(path) as f:
            for ln in f:
                ln = ln.rstrip("\n")
                m = EDGE_RE.match(ln)
                if m:
                    e = (m.group(1), m.group(2), m.group(3))
                    self.out[e[0]].append(len(self.edges))
                    self.edges.append(e)
                    continue
                m = NODE_RE.match(ln)
                if m:
                    self.nodes[m.group(1)] = m.group(2).replace("\\n", "\n").replace("\\\\", "\\").replace('\\"', '"')
                    if m.group(3):
                        self.inits.append(m.group(1))

    def field(self, node, name):
        """Value text of `/\\ name = value` in a node label (single-line values only)."""
        m = re.search(r"/\\ %s = ([^\n]*)" % re.escape(name), self.nodes[node])
        return m.group(1).strip() if m else None

    def covering_walks(self, maxlen=40):
        """Walks from initial states that together traverse every edge at least once.
        Returns list of (init node, [edge index, ...])."""
        # shortest-path tree from the inits
        dist, parent = {}, {}
        dq = deque()
        for i in self.inits:
            dist[i] = 0
            dq.append(i)
        while dq:
            u = dq.popleft()
            for ei in self.out[u]:
                v = self.edges[ei][1]
                if v not in dist:
                    dist[v] = dist[u] + 1
                    parent[v] = ei
                    dq.append(v)

        def path_to(n):
            p = []
            while n not in self.inits or dist[n] != 0:
                ei = parent[n]
                p.append(ei)
                n = self.edges[ei][0]
            p.reverse()
            return n, p
        self.path_to = path_to

        uncovered = set(range(len(self.edges)))
        pending = defaultdict(list)   # node -> uncovered out-edge indices
        for ei in uncovered:
            pending[self.edges[ei][0]].append(ei)
        walks = []
        order = sorted((n for n in pending if n in dist), key=lambda n: dist[n])
        for n in order:
            while pending[n]:
                init, walk = path_to(n)
                cur = n
                new = 0
                while pending[cur] and len(walk) < maxlen:
                    ei = pending[cur].pop()
                    if ei not in uncovered:
                        continue
                    uncovered.discard(ei)
                    walk.append(ei)
                    new += 1
                    cur = self.edges[ei][1]
                if new:
                    walks.append((init, walk))
        return walks

    def split_after_self_loops(self, walks):
        """Cut every walk after each self-loop edge (an operation the model says changes nothing): the caller appends its probe
        there, so that what follows such an operation is observed directly instead of through whatever edge happens to come next."""
        out = []
        for init, walk in walks:
            cur = []
            for i, ei in enumerate(walk):
                cur.append(ei)
                src, dst, _ = self.edges[ei]
                if src == dst and i + 1 < len(walk):
                    out.append((init, cur))
                    init2, pre = self.path_to(dst)
                    init, cur = init2, list(pre)
            out.append((init, cur))
        return out


def limbs_to_int(text):
    """'<<a, b, c>>' little-endian 16-bit limbs -> int"""
    xs = [int(x) for x in re.findall(r"-?\d+", text)]
    return sum(x << (16 * i) for i, x in enumerate(xs))
