#!/usr/bin/env python3
"""Entry point:  check.py <ID> [--tier quick|thorough] [--replay PATH]"""
import argparse
import importlib
import os
import sys

sys.path.insert(0, os.path.dirname(os.path.abspath(__file__)))
import vlib  # noqa: E402


def main():
    ap = argparse.ArgumentParser()
    ap.add_argument("prop")
    ap.add_argument("--tier", default=os.environ.get("VERIF_TIER", "quick"))
    ap.add_argument("--replay", default=None)
    a = ap.parse_args()
    pid = a.prop.upper()
    seed = None
    if a.replay:
        hdr = vlib.read_ndjson(a.replay)[0].get("replay", {})
        seed = hdr.get("seed")
        a.tier = hdr.get("tier", a.tier)
        vlib.log("[replay] re-running %s tier=%s seed=%s (recorded: %s)" % (pid, a.tier, seed, hdr.get("text")))
    mod = importlib.import_module("props." + pid.lower())
    vlib.main_wrapper(lambda: mod.run(vlib.Check(pid, mod.LEVEL, tier=a.tier, seed=seed)))


if __name__ == "__main__":
    main()
