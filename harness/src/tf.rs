//! Threefish drivers (C09, C10).
use crate::util::*;
use cipher::generic_array::GenericArray;
use cipher::{BlockDecrypt, BlockEncrypt, NewBlockCipher};
use threefish_cipher::{Threefish1024, Threefish256, Threefish512};

pub fn tf_call(size: usize, key: &[u8], t0: u64, t1: u64, zero_tweak_ctor: bool, block: &[u8], decrypt: bool) -> Vec<u8> {
    let mut b = block.to_vec();
    // the public entry points are rotated with the input (the result must not depend on which one is used):
    // new / new_from_slice; the cipher itself or a clone; encrypt_block / encrypt_blocks over a 3-block slice / encrypt_par_blocks
    let how = ((key[0] as u64).wrapping_add(block[0] as u64).wrapping_add(t0) % 6) as usize;
    macro_rules! go {
        ($T:ty) => {{
            let k = GenericArray::from_slice(key);
            let c0 = if zero_tweak_ctor {
                if how % 2 == 0 { <$T>::new(k) } else { <$T as NewBlockCipher>::new_from_slice(key).expect("harness: key length") }
            } else {
                <$T>::with_tweak(k, t0, t1)
            };
            let c = if how >= 3 { c0.clone() } else { c0 };
            match how % 3 {
                0 => {
                    let blk = GenericArray::from_mut_slice(&mut b);
                    if decrypt {
                        c.decrypt_block(blk)
                    } else {
                        c.encrypt_block(blk)
                    }
                }
                1 => {
                    // three blocks in one call: a filler, the block, another filler; the middle one is the result
                    let filler = GenericArray::clone_from_slice(&vec![0x3cu8; size]);
                    let mut blocks = [filler.clone(), GenericArray::clone_from_slice(&b), filler];
                    if decrypt {
                        c.decrypt_blocks(&mut blocks)
                    } else {
                        c.encrypt_blocks(&mut blocks)
                    }
                    b.copy_from_slice(&blocks[1]);
                }
                _ => {
                    let mut par = GenericArray::<GenericArray<u8, <$T as cipher::BlockCipher>::BlockSize>, <$T as cipher::BlockCipher>::ParBlocks>::default();
                    par[0] = GenericArray::clone_from_slice(&b);
                    if decrypt {
                        c.decrypt_par_blocks(&mut par)
                    } else {
                        c.encrypt_par_blocks(&mut par)
                    }
                    b.copy_from_slice(&par[0]);
                }
            }
        }};
    }
    match size {
        32 => go!(Threefish256),
        64 => go!(Threefish512),
        128 => go!(Threefish1024),
        _ => panic!("harness: threefish size"),
    }
    b
}

pub fn ev(out: &mut dyn std::io::Write, size: usize, key: &[u8], t0: u64, t1: u64, ctor0: bool, x: &[u8], tag: &str, cfg: &str) {
    // y = E(x); x2 = D(y); z = D(x); x3 = E(z)
    let r = guarded(|| {
        let y = tf_call(size, key, t0, t1, ctor0, x, false);
        let x2 = tf_call(size, key, t0, t1, ctor0, &y, true);
        let z = tf_call(size, key, t0, t1, ctor0, x, true);
        let x3 = tf_call(size, key, t0, t1, ctor0, &z, false);
        (y, x2, z, x3)
    });
    let (res, (y, x2, z, x3)) = match r {
        Ok(v) => ("ok".to_string(), v),
        Err(p) => (format!("panic:{}", sanitize(&p)), (vec![], vec![], vec![], vec![])),
    };
    Ev::new(0, "tf")
        .i("size", size as i64)
        .s("tag", tag)
        .s("cfg", cfg)
        .b("ctor0", ctor0)
        .bytes("key", key)
        .limbs("t0", t0 as u128, 4)
        .limbs("t1", t1 as u128, 4)
        .bytes("x", x)
        .bytes("y", &y)
        .bytes("x2", &x2)
        .bytes("z", &z)
        .bytes("x3", &x3)
        .s("res", &res)
        .emit(out);
}

/// several blocks through ONE `encrypt_blocks` / `decrypt_blocks` call: block i must come out as if it were alone
fn ev_blocks(out: &mut dyn std::io::Write, size: usize, key: &[u8], t0: u64, t1: u64, xs: &[Vec<u8>], tag: &str, cfg: &str) {
    macro_rules! go {
        ($T:ty) => {{
            let c = <$T>::with_tweak(GenericArray::from_slice(key), t0, t1);
            let mut e: Vec<GenericArray<u8, <$T as cipher::BlockCipher>::BlockSize>> = xs.iter().map(|x| GenericArray::clone_from_slice(x)).collect();
            let mut d = e.clone();
            c.encrypt_blocks(&mut e);
            c.decrypt_blocks(&mut d);
            (e.iter().flat_map(|b| b.to_vec()).collect::<Vec<u8>>(), d.iter().flat_map(|b| b.to_vec()).collect::<Vec<u8>>())
        }};
    }
    let r = guarded(|| match size {
        32 => go!(Threefish256),
        64 => go!(Threefish512),
        _ => go!(Threefish1024),
    });
    let (res, (ys, zs)) = match r {
        Ok(v) => ("ok".to_string(), v),
        Err(p) => (format!("panic:{}", sanitize(&p)), (vec![], vec![])),
    };
    let flat: Vec<u8> = xs.iter().flat_map(|b| b.clone()).collect();
    Ev::new(0, "tfb").i("size", size as i64).s("tag", tag).s("cfg", cfg).bytes("key", key).limbs("t0", t0 as u128, 4).limbs("t1", t1 as u128, 4)
        .bytes("xs", &flat).bytes("ys", &ys).bytes("zs", &zs).s("res", &res).emit(out);
}

pub fn drive_tf(out: &mut dyn std::io::Write, seed: u64, thorough: bool, cfg: &str) {
    let mut rng = Rng::new(seed ^ 0x7f15);
    for &size in [32usize, 64, 128].iter() {
        // consecutive blocks of one call that share a prefix of every word-aligned length with their predecessor, are
        // identical to it, or repeat an earlier block (an implementation may carry state from one block to the next)
        for rep in 0..(if thorough { 4 } else { 1 }) {
            let key = rng.bytes(size);
            let mut xs: Vec<Vec<u8>> = vec![rng.bytes(size)];
            let mut cuts: Vec<usize> = (1..size / 8).map(|w| 8 * w).collect();
            cuts.push(size - 1);
            cuts.push(1);
            for (ci, &cut) in cuts.iter().enumerate() {
                let mut b = xs[xs.len() - 1].clone();
                b[cut] ^= 0x40 >> (ci % 7); // shares exactly bytes 0..cut with its predecessor
                xs.push(b);
                if ci % 3 == rep % 3 {
                    xs.push(xs[xs.len() - 1].clone()); // identical to its predecessor
                }
            }
            xs.push(xs[0].clone());
            xs.push(vec![0u8; size]);
            xs.push(vec![0u8; size]);
            ev_blocks(out, size, &key, rng.next(), rng.next(), &xs, "blocks", cfg);
        }
        // published vectors of the repository's tests
        ev(out, size, &vec![0u8; size], 0, 0, true, &vec![0u8; size], "kat0", cfg);
        let kinc: Vec<u8> = (0..size).map(|i| (16 + i) as u8).collect();
        let pdec: Vec<u8> = (0..size).map(|i| (255 - i) as u8).collect();
        ev(out, size, &kinc, 0x0706050403020100, 0x0f0e0d0c0b0a0908, false, &pdec, "kat1", cfg);
        // single-bit keys / tweaks / blocks
        let nbits = if thorough { size * 8 } else { 10 };
        for j in 0..nbits {
            let bit = if thorough { j } else { (j * (size * 8 / 10) + (seed as usize % 5)) % (size * 8) };
            let mut k = vec![0u8; size];
            k[bit / 8] |= 1 << (bit % 8);
            ev(out, size, &k, 0, 0, j % 2 == 0, &vec![0u8; size], "keybit", cfg);
            let mut x = vec![0u8; size];
            x[bit / 8] |= 1 << (bit % 8);
            ev(out, size, &vec![0u8; size], 0, 0, false, &x, "blockbit", cfg);
        }
        for bit in (0..128).step_by(if thorough { 1 } else { 13 }) {
            let (t0, t1) = if bit < 64 { (1u64 << bit, 0) } else { (0, 1u64 << (bit - 64)) };
            ev(out, size, &vec![0u8; size], t0, t1, false, &vec![0u8; size], "tweakbit", cfg);
        }
        // all-ones: carries in every addition; key parity word and t2 = t0 ^ t1 non-trivial
        ev(out, size, &vec![0xffu8; size], u64::MAX, u64::MAX, false, &vec![0xffu8; size], "ones", cfg);
        ev(out, size, &vec![0xffu8; size], u64::MAX, 0, false, &vec![0u8; size], "ones", cfg);
        ev(out, size, &vec![0x80u8; size], 0x8000_0000_0000_0000, 1, false, &vec![0x7fu8; size], "ones", cfg);
        // related tweak words: t2 = t0 ^ t1 is 0, all-ones, or equal to one of them
        for (t0, t1) in [(1u64, 1u64), (rng.next() | 1, 0), (0, rng.next() | 1)] {
            let k = rng.bytes(size);
            ev(out, size, &k, t0, t1, false, &rng.bytes(size), "tweakrel", cfg);
        }
        let t = rng.next() | 2;
        let k = rng.bytes(size);
        ev(out, size, &k, t, t, false, &rng.bytes(size), "tweakrel", cfg);
        ev(out, size, &k, t, !t, false, &rng.bytes(size), "tweakrel", cfg);
        for _ in 0..(if thorough { 60 } else { 8 }) {
            let k = rng.bytes(size);
            let x = rng.bytes(size);
            ev(out, size, &k, rng.next(), rng.next(), false, &x, "rand", cfg);
        }
    }
}

/// inputs crafted by the specification (CraftTF.tla): text lines `size keyhex t0 t1 xhex tag`
pub fn drive_tf_vectors(out: &mut dyn std::io::Write, path: &str, cfg: &str) {
    let unhex = |h: &str| -> Vec<u8> { (0..h.len() / 2).map(|i| u8::from_str_radix(&h[2 * i..2 * i + 2], 16).expect("harness: hex")).collect() };
    let text = std::fs::read_to_string(path).expect("harness: vectors file");
    for ln in text.lines() {
        let f: Vec<&str> = ln.split_whitespace().collect();
        if f.len() != 6 {
            continue;
        }
        let size: usize = f[0].parse().expect("harness: size");
        let (t0, t1): (u64, u64) = (f[2].parse().expect("harness: t0"), f[3].parse().expect("harness: t1"));
        ev(out, size, &unhex(f[1]), t0, t1, false, &unhex(f[4]), f[5], cfg);
    }
}

/// encrypt / decrypt in place on a caller-provided slice (C16: the block lives in guarded memory)
pub fn tf_call_inplace(size: usize, key: &[u8], t0: u64, t1: u64, block: &mut [u8], decrypt: bool) {
    macro_rules! go {
        ($T:ty) => {{
            let c = <$T>::with_tweak(GenericArray::from_slice(key), t0, t1);
            let blk = GenericArray::from_mut_slice(block);
            if decrypt {
                c.decrypt_block(blk)
            } else {
                c.encrypt_block(blk)
            }
        }};
    }
    match size {
        32 => go!(Threefish256),
        64 => go!(Threefish512),
        128 => go!(Threefish1024),
        _ => panic!("harness: threefish size"),
    }
}
