//! C18: (a) one thread interleaving operations on several live instances of mixed types,
//!      (b) cold processes whose very first calls into every algorithm happen on many threads at once.
use crate::chacha::{self, Ciph};
use crate::hashes::{self, Hx};
use crate::util::*;
use std::collections::BTreeMap;
use std::sync::{Arc, Barrier};

struct HSlot {
    h: Box<dyn Hx>,
    alg: String,
    n: usize,
    msg: Vec<u8>,
}

struct Sys<'a> {
    out: &'a mut dyn std::io::Write,
    k: usize,
    cs: BTreeMap<usize, Box<dyn Ciph>>,
    hs: BTreeMap<usize, HSlot>,
}

fn res3(r: &Result<Result<(), ()>, String>) -> String {
    match r {
        Ok(Ok(())) => "ok".to_string(),
        Ok(Err(())) => "err".to_string(),
        Err(p) => format!("panic:{}", sanitize(p)),
    }
}

impl<'a> Sys<'a> {
    fn start(out: &'a mut dyn std::io::Write) -> Sys<'a> {
        Ev::new(0, "sys").emit(out);
        Sys { out, k: 0, cs: BTreeMap::new(), hs: BTreeMap::new() }
    }
    fn cnew(&mut self, id: usize, v: &str, key: &[u8], nonce: &[u8]) {
        self.k += 1;
        Ev::new(self.k, "cnew").i("i", id as i64).s("variant", v).bytes("key", key).bytes("nonce", nonce).s("res", "ok").emit(self.out);
        self.cs.insert(id, chacha::make(v, key, nonce));
    }
    fn hadd(&mut self, id: usize, alg: &str, n: usize) {
        self.k += 1;
        Ev::new(self.k, "hadd").i("i", id as i64).s("alg", alg).i("n", hashes::out_size(alg, n) as i64).s("res", "ok").emit(self.out);
        self.hs.insert(id, HSlot { h: hashes::make_hash(alg, n), alg: alg.to_string(), n, msg: vec![] });
    }
    fn capply(&mut self, id: usize, before: &[u8]) {
        let c = self.cs.get_mut(&id).unwrap();
        let mut buf = before.to_vec();
        let r = guarded(|| c.apply(&mut buf));
        self.k += 1;
        Ev::new(self.k, "apply").i("i", id as i64).i("n", before.len() as i64).bytes("before", before).bytes("after", &buf).b("guard", true).s("res", &res3(&r)).emit(self.out);
    }
    fn cseek(&mut self, id: usize, p: u128) {
        let c = self.cs.get_mut(&id).unwrap();
        let r = guarded(|| c.seek("u64", false, p));
        self.k += 1;
        Ev::new(self.k, "seek").i("i", id as i64).s("ty", "u64").b("neg", false).limbs("val", p, 8).s("res", &res3(&r)).emit(self.out);
    }
    fn cpos(&mut self, id: usize) {
        let c = self.cs.get(&id).unwrap();
        let r = guarded(|| c.pos("u128"));
        let (res, val) = match r {
            Ok(Some(v)) => ("ok".to_string(), v),
            Ok(None) => ("ovf".to_string(), 0),
            Err(p) => (format!("panic:{}", sanitize(&p)), 0),
        };
        self.k += 1;
        Ev::new(self.k, "pos").i("i", id as i64).s("ty", "u128").limbs("val", val, 8).s("res", &res).emit(self.out);
    }
    fn hupd(&mut self, id: usize, d: &[u8]) {
        let s = self.hs.get_mut(&id).unwrap();
        s.h.upd(d);
        s.msg.extend_from_slice(d);
        self.k += 1;
        Ev::new(self.k, "upd").i("i", id as i64).bytes("data", d).s("res", "ok").emit(self.out);
    }
    fn hclone(&mut self, id: usize, dst: usize) {
        if self.hs.contains_key(&dst) && dst != id && self.hs[&dst].alg == self.hs[&id].alg && self.hs[&dst].n == self.hs[&id].n {
            let mut d = self.hs.remove(&dst).unwrap();
            let s = self.hs.get(&id).unwrap();
            d.h.cl_from(&*s.h);
            d.msg = s.msg.clone();
            self.hs.insert(dst, d);
        } else {
            let s = self.hs.get(&id).unwrap();
            let c = HSlot { h: s.h.cl(), alg: s.alg.clone(), n: s.n, msg: s.msg.clone() };
            self.hs.insert(dst, c);
        }
        self.k += 1;
        Ev::new(self.k, "clone").i("i", id as i64).i("j", dst as i64).s("res", "ok").emit(self.out);
    }
    fn hreset(&mut self, id: usize) {
        let s = self.hs.get_mut(&id).unwrap();
        s.h.rst();
        s.msg.clear();
        self.k += 1;
        Ev::new(self.k, "reset").i("i", id as i64).s("res", "ok").emit(self.out);
    }
    fn href(&mut self, id: usize) {
        let s = self.hs.get(&id).unwrap();
        let rf = { let mut h = hashes::make_hash(&s.alg, s.n); h.upd(&s.msg); h.fin() };
        self.k += 1;
        Ev::new(self.k, "ref").s("alg", &s.alg).i("n", hashes::out_size(&s.alg, s.n) as i64).bytes("msg", &s.msg).bytes("out", &rf).s("res", "ok").emit(self.out);
    }
    fn hfinreset(&mut self, id: usize) {
        self.href(id);
        let k = self.k;
        let s = self.hs.get_mut(&id).unwrap();
        let o = s.h.fin_reset_how(k);
        s.msg.clear();
        self.k += 1;
        Ev::new(self.k, "finreset").i("i", id as i64).bytes("out", &o).s("res", "ok").emit(self.out);
    }
    fn finish(&mut self) {
        let ids: Vec<usize> = self.hs.keys().cloned().collect();
        for id in ids {
            self.href(id);
            let s = self.hs.remove(&id).unwrap();
            let o = s.h.fin();
            self.k += 1;
            Ev::new(self.k, "fin").i("i", id as i64).bytes("out", &o).s("res", "ok").emit(self.out);
        }
    }
}

/// cipher 1 and 2: same type, different keys; cipher 3: SAME key and nonce as cipher 1, another round count of the same
/// nonce layout (state shared per key/nonce/position would mix them up); hashers 1 and 2: the same algorithm
fn populate(sys: &mut Sys, rng: &mut Rng, nc: usize) {
    let first_variant = *rng.pick(&chacha::VARIANTS);
    let family: Vec<&str> = chacha::VARIANTS.iter().cloned().filter(|v| chacha::nonce_len(v) == chacha::nonce_len(first_variant)).collect();
    let shared_key = rng.bytes(32);
    let shared_nonce = rng.bytes(chacha::nonce_len(first_variant));
    for id in 1..=nc {
        let (v, key, nonce) = match id {
            1 => (first_variant, shared_key.clone(), shared_nonce.clone()),
            2 => (first_variant, rng.bytes(32), rng.bytes(chacha::nonce_len(first_variant))),
            3 => {
                let pos = family.iter().position(|x| *x == first_variant).unwrap();
                (family[(pos + 1) % family.len()], shared_key.clone(), shared_nonce.clone())
            }
            _ => {
                let v = *rng.pick(&chacha::VARIANTS);
                (v, rng.bytes(32), rng.bytes(chacha::nonce_len(v)))
            }
        };
        sys.cnew(id, v, &key, &nonce);
    }
    let first_alg = *rng.pick(&hashes::C08_ALGS);
    for id in 1..=2usize {
        sys.hadd(id, first_alg.0, first_alg.1);
    }
    // hashers 3 and 4: relatives of that type - they share some of its parameters but not all
    let (r1, r2) = relatives(first_alg.0, first_alg.1);
    sys.hadd(3, r1.0, r1.1);
    sys.hadd(4, r2.0, r2.1);
}

/// two types related to (alg, n): same compression function with the other output size / same output size with another state
/// size (Skein) ; the sibling of the other word width / same state size with another output size (Skein)
fn relatives(alg: &str, n: usize) -> ((&'static str, usize), (&'static str, usize)) {
    match alg {
        "Blake224" => (("Blake256", 0), ("Blake384", 0)),
        "Blake256" => (("Blake224", 0), ("Blake512", 0)),
        "Blake384" => (("Blake512", 0), ("Blake224", 0)),
        "Blake512" => (("Blake384", 0), ("Blake256", 0)),
        "Groestl224" => (("Groestl256", 0), ("Groestl384", 0)),
        "Groestl256" => (("Groestl224", 0), ("Groestl512", 0)),
        "Groestl384" => (("Groestl512", 0), ("Groestl224", 0)),
        "Groestl512" => (("Groestl384", 0), ("Groestl256", 0)),
        "Jh224" => (("Jh256", 0), ("Jh384", 0)),
        "Jh256" => (("Jh224", 0), ("Jh512", 0)),
        "Jh384" => (("Jh512", 0), ("Jh224", 0)),
        "Jh512" => (("Jh384", 0), ("Jh256", 0)),
        "Skein256" => (("Skein512", n), ("Skein256", 64)),
        "Skein512" => (("Skein1024", n), ("Skein512", 32)),
        _ => (("Skein256", n), ("Skein1024", 64)),
    }
}

/// Schedules drawn by TLC from System.tla (spec -> impl): one line per behaviour, a JSON array of [op, instance, argument]
pub fn run_sys_schedules(out: &mut dyn std::io::Write, path: &str, seed: u64) {
    let text = std::fs::read_to_string(path).expect("schedules");
    let mut rng = Rng::new(seed ^ 0x5e5);
    for line in text.lines() {
        let toks: Vec<String> = line.replace('[', " ").replace(']', " ").replace(',', " ").replace('"', " ").split_whitespace().map(|s| s.to_string()).collect();
        if toks.is_empty() {
            continue;
        }
        let mut sys = Sys::start(out);
        populate(&mut sys, &mut rng, 3);
        for t in toks.chunks(3) {
            let (op, a, b) = (t[0].as_str(), t[1].parse::<usize>().unwrap(), t[2].parse::<usize>().unwrap());
            match op {
                "capply" => { let d = rng.bytes(b); sys.capply(a, &d) }
                "cseek" => sys.cseek(a, b as u128),
                "cpos" => sys.cpos(a),
                "hupd" => { let d = rng.bytes(b); sys.hupd(a, &d) }
                "hclone" => sys.hclone(a, b),
                "hreset" => sys.hreset(a),
                "hfinreset" => sys.hfinreset(a),
                _ => panic!("harness: schedule op {}", op),
            }
        }
        sys.finish();
    }
}

pub fn drive_interleave(out: &mut dyn std::io::Write, seed: u64, thorough: bool) {
    let mut rng = Rng::new(seed ^ 0xc18);
    let episodes = if thorough { 60 } else { 10 };
    for _ in 0..episodes {
        let mut sys = Sys::start(out);
        let nc = 3 + rng.below(2) as usize;
        populate(&mut sys, &mut rng, nc);
        let extra = *rng.pick(&hashes::C08_ALGS);
        sys.hadd(5, extra.0, extra.1);
        let steps = if thorough { 60 } else { 36 };
        for _ in 0..steps {
            if rng.below(2) == 0 {
                let ids: Vec<usize> = sys.cs.keys().cloned().collect();
                let id = *rng.pick(&ids);
                match rng.below(6) {
                    0 => {
                        let p = *rng.pick(&[0u128, 1, 63, 64, 65, 200, 1000, (1u128 << 38) - 70]);
                        sys.cseek(id, p);
                    }
                    1 => sys.cpos(id),
                    _ => {
                        let n = *rng.pick(&[0usize, 1, 17, 63, 64, 65, 130, 256, 300]);
                        // ciphers 1 and 3 share key and nonce: step them in lock-step most of the time
                        let ids2: Vec<usize> = if (id == 1 || id == 3) && rng.below(3) != 0 { vec![id, 4 - id] } else { vec![id] };
                        for id in ids2 {
                            let d = rng.bytes(n);
                            sys.capply(id, &d);
                        }
                    }
                }
            } else {
                let ids: Vec<usize> = sys.hs.keys().cloned().collect();
                if ids.is_empty() {
                    continue;
                }
                let id = *rng.pick(&ids);
                match rng.below(10) {
                    0 if ids.len() < 7 => {
                        let dst = (1..=8).find(|d| !ids.contains(d)).unwrap();
                        sys.hclone(id, dst);
                    }
                    1 => sys.hreset(id),
                    2 => sys.hfinreset(id),
                    _ => {
                        let b = hashes::block_size(&sys.hs[&id].alg);
                        let n = *rng.pick(&[0usize, 1, b - 1, b, b + 1, 2 * b + 3, 5]);
                        let d = rng.bytes(n);
                        sys.hupd(id, &d);
                    }
                }
            }
        }
        sys.finish();
    }
}

const COLD_ALGS: [(&str, usize); 11] = [
    ("Groestl256", 0), ("Groestl512", 0), ("Groestl224", 0), ("Groestl384", 0), ("Blake256", 0), ("Blake512", 0), ("Jh256", 0), ("Skein512", 64),
    ("ks:ChaCha20", 0), ("ks:Ietf", 0), ("ks:XChaCha8", 0),
];

/// One cold process: `threads` threads released by a barrier make the process's very first calls into every algorithm.
/// Events carry (thread, per-thread sequence number); no cross-thread order is recorded or inferred.
pub fn drive_cold(out: &mut dyn std::io::Write, threads: usize, round: u64) {
    let barrier = Arc::new(Barrier::new(threads));
    let mut handles = vec![];
    for t in 0..threads {
        let b = barrier.clone();
        handles.push(std::thread::spawn(move || {
            let mut buf: Vec<u8> = vec![];
            b.wait();
            for s in 0..COLD_ALGS.len() {
                // every thread starts with a different algorithm so that all lazily initialised cells race
                let ai = (s + t + round as usize) % COLD_ALGS.len();
                let (alg, n) = COLD_ALGS[ai];
                let tag = format!("t{}s{}", t, s);
                if let Some(v) = alg.strip_prefix("ks:") {
                    let key: Vec<u8> = (0..32).map(|i| (i * 3 + t) as u8).collect();
                    let nonce: Vec<u8> = (0..chacha::nonce_len(v)).map(|i| (i + 2 * t) as u8).collect();
                    let data: Vec<u8> = (0..70 + t % 3).map(|i| (i ^ t) as u8).collect();
                    chacha::ks_event(&mut buf, v, &key, &nonce, (t as u64 % 4) * 32, &data, &tag);
                } else {
                    let len = 1 + (t * 7 + ai) % 70;
                    let msg: Vec<u8> = (0..len).map(|i| (i * 5 + t) as u8).collect();
                    hashes::digest_event(&mut buf, alg, n, &msg, &tag, "cold");
                }
            }
            buf
        }));
    }
    for h in handles {
        match h.join() {
            Ok(buf) => out.write_all(&buf).unwrap(),
            Err(_) => Ev::new(0, "threadpanic").s("res", "panic").emit(out),
        }
    }
}

/// steady-state concurrency: `threads` threads, released by a barrier, repeat the same per-thread operations `iters` times
/// (hashes with one- and many-block outputs, stream ciphers, Threefish in both directions). A thread's inputs never change, so
/// every repetition must produce the same record; the first record and every record that DIFFERS from it are emitted, and each
/// distinct (input, output) is validated against the function specifications. Shared mutable scratch anywhere in the library
/// (a static buffer, a cached key schedule) shows up as a differing - and then rejected - record.
const HOT_ALGS: [(&str, usize); 23] = [
    ("Skein256", 64), ("Skein512", 128), ("Skein1024", 256), ("Skein256", 96), ("Skein512", 65), ("Skein1024", 129), ("Skein256", 32),
    ("Blake256", 0), ("Blake512", 0), ("Jh256", 0), ("Groestl256", 0), ("Groestl512", 0),
    ("ks:ChaCha20", 0), ("ks:Ietf", 0), ("tf:32", 0), ("tf:64", 0), ("tf:128", 0),
    // the same key under another tweak / another nonce length / another round count, adjacent in the loop so that they alternate
    ("tf:32", 1), ("tf:64", 1), ("tf:128", 1), ("ks:XChaCha20", 0), ("ks:ChaCha8", 0), ("ks:XChaCha8", 0),
];

pub fn drive_hot(out: &mut dyn std::io::Write, threads: usize, iters: usize, round: u64) {
    let barrier = Arc::new(Barrier::new(threads));
    let mut handles = vec![];
    for t in 0..threads {
        let b = barrier.clone();
        handles.push(std::thread::spawn(move || {
            let mut buf: Vec<u8> = vec![];
            let mut first: Vec<Option<Vec<u8>>> = vec![None; HOT_ALGS.len()];
            b.wait();
            for _it in 0..iters {
                for s in 0..HOT_ALGS.len() {
                    let ai = (s + t + round as usize) % HOT_ALGS.len();
                    let (alg, n) = HOT_ALGS[ai];
                    let mut rec: Vec<u8> = vec![];
                    if let Some(v) = alg.strip_prefix("ks:") {
                        let key: Vec<u8> = (0..32).map(|i| (i * 3 + t) as u8).collect();
                        let nonce: Vec<u8> = (0..chacha::nonce_len(v)).map(|i| (i + 2 * t) as u8).collect();
                        let data: Vec<u8> = (0..300 + t % 3).map(|i| (i ^ t) as u8).collect();
                        chacha::ks_event(&mut rec, v, &key, &nonce, (t as u64 % 4) * 32, &data, "hot");
                    } else if let Some(sz) = alg.strip_prefix("tf:") {
                        let size: usize = sz.parse().unwrap();
                        let key: Vec<u8> = (0..size).map(|i| (i * 11 + t + 1) as u8).collect();
                        let x: Vec<u8> = (0..size).map(|i| (i * 5 + 3 * t) as u8).collect();
                        crate::tf::ev(&mut rec, size, &key, 0x0101_0101 * (t as u64 + 1) + n as u64, 77 + t as u64 + 1000 * n as u64, false, &x, "hot", "hot");
                    } else {
                        let len = 1 + (t * 7 + ai) % 150;
                        let msg: Vec<u8> = (0..len).map(|i| (i * 5 + t) as u8).collect();
                        hashes::digest_event(&mut rec, alg, n, &msg, "hot", "hot");
                    }
                    match &first[ai] {
                        None => {
                            buf.extend_from_slice(&rec);
                            first[ai] = Some(rec);
                        }
                        Some(f) => {
                            if *f != rec {
                                buf.extend_from_slice(&rec);
                            }
                        }
                    }
                }
            }
            buf
        }));
    }
    for h in handles {
        match h.join() {
            Ok(buf) => out.write_all(&buf).unwrap(),
            Err(_) => Ev::new(0, "threadpanic").s("res", "panic").emit(out),
        }
    }
}
