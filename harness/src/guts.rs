//! Drivers for the block-level API `c2_chacha::guts::ChaCha` (C14, C15).
use crate::util::*;
use c2_chacha::guts::ChaCha;

pub struct G {
    pub c: ChaCha,
    pub k: usize,
}

fn after(e: Ev, c: &ChaCha) -> Ev {
    e.limbs("p0", c.get_stream_param(0) as u128, 4).limbs("p1", c.get_stream_param(1) as u128, 4)
}

impl G {
    pub fn new(out: &mut dyn std::io::Write, key: &[u8], nonce: &[u8], tag: &str) -> Option<G> {
        let mut k = [0u8; 32];
        k.copy_from_slice(key);
        let r = guarded(|| ChaCha::new(&k, nonce));
        let e = Ev::new(0, "gnew").s("tag", tag).bytes("key", key).bytes("nonce", nonce);
        match r {
            Ok(c) => {
                after(e, &c).s("res", "ok").emit(out);
                Some(G { c, k: 0 })
            }
            Err(p) => {
                e.limbs("p0", 0, 4).limbs("p1", 0, 4).s("res", &format!("panic:{}", sanitize(&p))).emit(out);
                None
            }
        }
    }
    fn fin(&mut self, e: Ev, r: Result<(), String>, out: &mut dyn std::io::Write) {
        let res = match r {
            Ok(()) => "ok".to_string(),
            Err(p) => format!("panic:{}", sanitize(&p)),
        };
        after(e, &self.c).s("res", &res).emit(out);
    }
    pub fn setp(&mut self, out: &mut dyn std::io::Write, p: u32, v: u64) {
        self.k += 1;
        let c = &mut self.c;
        let r = guarded(|| c.set_stream_param(p, v));
        let e = Ev::new(self.k, "setp").i("p", p as i64).limbs("val", v as u128, 4);
        self.fin(e, r, out);
    }
    pub fn getp(&mut self, out: &mut dyn std::io::Write, p: u32) {
        self.k += 1;
        let c = &self.c;
        let r = guarded(|| c.get_stream_param(p));
        let v = *r.as_ref().unwrap_or(&0);
        let e = Ev::new(self.k, "getp").i("p", p as i64).limbs("val", v as u128, 4);
        self.fin(e, r.map(|_| ()), out);
    }
    pub fn refill(&mut self, out: &mut dyn std::io::Write, dr: u32) {
        self.k += 1;
        // the output buffer arrives with whatever a previous use left in it: refill must overwrite, not combine
        let fill = [0u8, 0xa5, 0xff][self.k % 3];
        let mut buf = [fill; 64];
        let c = &mut self.c;
        let r = guarded(|| c.refill(dr, &mut buf));
        let e = Ev::new(self.k, "refill").i("dr", dr as i64).bytes("out", &buf);
        self.fin(e, r, out);
    }
    pub fn refill4(&mut self, out: &mut dyn std::io::Write, dr: u32) {
        self.k += 1;
        let fill = [0xa5u8, 0, 0xff][self.k % 3];
        let mut buf = [fill; 256];
        let c = &mut self.c;
        let r = guarded(|| c.refill4(dr, &mut buf));
        let e = Ev::new(self.k, "refill4").i("dr", dr as i64).bytes("out", &buf);
        self.fin(e, r, out);
    }
    #[allow(clippy::too_many_arguments)]
    pub fn eq(&mut self, out: &mut dyn std::io::Write, okey: &[u8], ononce: &[u8], oc: u64, os: u64) {
        self.k += 1;
        let mut k = [0u8; 32];
        k.copy_from_slice(okey);
        let c = &self.c;
        let r = guarded(|| {
            let mut o = ChaCha::new(&k, ononce);
            o.set_stream_param(0, oc);
            o.set_stream_param(1, os);
            (c.stream32_eq(&o), c.stream64_eq(&o), *c == o, o.stream32_eq(c), o.stream64_eq(c))
        });
        let (e32, e64, same, r32, r64) = *r.as_ref().unwrap_or(&(false, false, false, false, false));
        let e = Ev::new(self.k, "eq")
            .bytes("okey", okey)
            .bytes("ononce", ononce)
            .limbs("oc", oc as u128, 4)
            .limbs("os", os as u128, 4)
            .b("eq32", e32)
            .b("eq64", e64)
            .b("same", same)
            .b("sym", e32 == r32 && e64 == r64);
        self.fin(e, r.map(|_| ()), out);
    }
}

fn counters(rng: &mut Rng, thorough: bool) -> Vec<u64> {
    let mut v = vec![];
    for d in 0..=4u64 {
        v.push((1u64 << 32) - d);
        v.push(u64::MAX - d); // 2^64-1 .. 2^64-5
        v.push(0xffff_ffff_0000_0000u64.wrapping_sub(d));
    }
    v.push(0);
    v.push(u64::MAX - 4);
    for _ in 0..(if thorough { 48 } else { 3 }) {
        v.push(rng.next());
    }
    v.sort_unstable();
    v.dedup();
    v
}

/// C14: refill4 vs four refills at carry points, drounds 0..=10.
pub fn drive_c14(out: &mut dyn std::io::Write, seed: u64, thorough: bool) {
    let mut rng = Rng::new(seed ^ 0xc14);
    let ctrs = counters(&mut rng, thorough);
    for (ci, &ctr) in ctrs.iter().enumerate() {
        let drs: Vec<u32> = if thorough { (0..=10).collect() } else { vec![(ci % 11) as u32, ((ci * 7 + 3) % 11) as u32] };
        for dr in drs {
            let key = rng.bytes(32);
            let nl = if rng.below(2) == 0 { 8 } else { 12 };
            let nonce = rng.bytes(nl);
            let sid = rng.next();
            // wide
            if let Some(mut g) = G::new(out, &key, &nonce, "wide") {
                if rng.below(2) == 0 {
                    g.setp(out, 1, sid);
                }
                g.setp(out, 0, ctr);
                g.refill4(out, dr);
                g.refill(out, dr);
                g.refill4(out, dr);
                g.getp(out, 0);
                g.getp(out, 1);
            }
            // narrow x4 from the same state
            if let Some(mut g) = G::new(out, &key, &nonce, "narrow") {
                g.setp(out, 0, ctr);
                for _ in 0..5 {
                    g.refill(out, dr);
                }
                g.getp(out, 0);
            }
        }
    }
    // the same state asked for its block with every double-round count, back to back on fresh instances (a block must depend on
    // the round count even when key, nonce and position coincide with the previous request)
    {
        let key = rng.bytes(32);
        let nonce = rng.bytes(8);
        for wide in [false, true] {
            for dr in 0..=10u32 {
                if let Some(mut g) = G::new(out, &key, &nonce, "samestate") {
                    g.setp(out, 0, 0xffff_fffe);
                    if wide { g.refill4(out, dr) } else { g.refill(out, dr) }
                    g.refill(out, 10 - dr);
                }
            }
        }
    }
    // structured keys: the two key rows equal, and equal except for one word (each of the four positions, both directions)
    {
        let half = rng.bytes(16);
        let mut keys: Vec<Vec<u8>> = vec![[half.clone(), half.clone()].concat(), vec![0u8; 32], vec![0x5au8; 32]];
        for w in 0..4usize {
            for side in 0..2usize {
                let mut k = [half.clone(), half.clone()].concat();
                k[16 * side + 4 * w + (w % 4)] ^= 0x21;
                keys.push(k);
            }
        }
        for (ki, key) in keys.iter().enumerate() {
            let nonce = rng.bytes(if ki % 2 == 0 { 8 } else { 12 });
            let dr = (ki as u32 * 3) % 11;
            if let Some(mut g) = G::new(out, key, &nonce, "keystruct") {
                g.refill4(out, dr);
                g.getp(out, 0);
            }
            if let Some(mut g) = G::new(out, key, &nonce, "keystruct") {
                for _ in 0..4 {
                    g.refill(out, dr);
                }
            }
        }
    }
    // every sequence of three (thorough: four) operations from {refill, refill4, set counter, set stream id}, then a probe
    // (refill4, both parameters, refill): whatever an operation leaves behind - a cached row, a precomputed counter - must
    // not survive the next change of either parameter
    {
        let len = if thorough { 4u32 } else { 3 };
        for code in 0..4usize.pow(len) {
            let key = rng.bytes(32);
            let nonce = rng.bytes(if code % 2 == 0 { 8 } else { 12 });
            if let Some(mut g) = G::new(out, &key, &nonce, "seq") {
                let mut c = code;
                for step in 0..len {
                    let dr = 1 + ((code as u32 + step) % 10);
                    match c % 4 {
                        0 => g.refill(out, dr),
                        1 => g.refill4(out, dr),
                        2 => {
                            let v = [rng.next(), 0xffff_fffd, (1u64 << 32) - 1, rng.next() >> 40][(code / 7 + step as usize) % 4];
                            g.setp(out, 0, v)
                        }
                        _ => g.setp(out, 1, rng.next()),
                    }
                    c /= 4;
                }
                g.refill4(out, 3);
                g.getp(out, 0);
                g.getp(out, 1);
                g.refill(out, 5);
            }
        }
    }
    // all-ones / all-zero keys, stream id words at their extremes (a carry must never reach them)
    for (key, sid) in [(vec![0xffu8; 32], u64::MAX), (vec![0u8; 32], 0), (vec![0xffu8; 32], 0xffff_ffff)] {
        if let Some(mut g) = G::new(out, &key, &[0u8; 8], "extreme") {
            g.setp(out, 1, sid);
            g.setp(out, 0, u64::MAX - 1);
            g.refill4(out, 10);
            g.refill(out, 10);
            g.setp(out, 0, u64::MAX);
            g.refill(out, 4);
            g.getp(out, 1);
        }
    }
}

/// C15: parameter round trips, isolation, equality predicates with single-word differences.
pub fn drive_c15(out: &mut dyn std::io::Write, seed: u64, thorough: bool) {
    let mut rng = Rng::new(seed ^ 0xc15);
    let vals: Vec<u64> = vec![0, 1, u64::MAX, 0xffff_ffff, 1 << 32, 0x8000_0000_0000_0000, 0x0123_4567_89ab_cdef, rng.next(), rng.next()];
    let reps = if thorough { 40 } else { 2 };
    for _ in 0..reps {
        for &v in vals.iter() {
            let key = rng.bytes(32);
            let nl = if rng.below(2) == 0 { 8 } else { 12 };
            let nonce = rng.bytes(nl);
            if let Some(mut g) = G::new(out, &key, &nonce, "params") {
                g.getp(out, 0);
                g.getp(out, 1);
                let p = rng.below(2) as u32;
                g.setp(out, p, v);
                g.getp(out, p);
                g.getp(out, 1 - p);
                g.refill(out, 1 + rng.below(10) as u32);
                let w = *rng.pick(&vals);
                g.setp(out, 1 - p, w);
                g.getp(out, 0);
                g.getp(out, 1);
                g.refill4(out, rng.below(3) as u32);
                g.setp(out, p, v);
                g.refill(out, 10);
            }
            // a state created directly with those values: counter high word and stream id through a 12-byte nonce
            let mut n12 = vec![0u8; 12];
            n12[..4].copy_from_slice(&((v >> 32) as u32).to_le_bytes());
            let w = rng.next();
            n12[4..].copy_from_slice(&w.to_le_bytes());
            if let Some(mut g) = G::new(out, &key, &n12, "direct") {
                g.refill(out, 10);
                g.getp(out, 0);
            }
            if let Some(mut g) = G::new(out, &key, &[0u8; 8], "viaset") {
                g.setp(out, 0, v & 0xffff_ffff_0000_0000);
                g.setp(out, 1, w);
                g.refill(out, 10);
                g.getp(out, 0);
            }
        }
    }
    // parameter aliasing: the same value written to both parameters (both orders), a parameter set to the other one's current
    // value, and a parameter "set" to the value it already has - each followed by reads of both and by output
    for &v in vals.iter() {
        for order in 0..2u32 {
            let key = rng.bytes(32);
            let nonce = rng.bytes(if order == 0 { 8 } else { 12 });
            if let Some(mut g) = G::new(out, &key, &nonce, "alias") {
                g.setp(out, order, v);
                g.setp(out, 1 - order, v);
                g.getp(out, 0);
                g.getp(out, 1);
                g.refill(out, 3);
                let cur0 = g.c.get_stream_param(0);
                g.setp(out, 1, cur0); // stream id := current counter
                g.getp(out, 1);
                let cur1 = g.c.get_stream_param(1);
                g.setp(out, 0, cur1); // counter := current stream id
                g.setp(out, 0, cur1); // and again (already in place)
                g.getp(out, 0);
                g.refill4(out, 2);
            }
        }
    }
    // fresh state with a non-zero nonce: select stream 0 / counter 0 explicitly
    for nl in [8usize, 12] {
        let key = rng.bytes(32);
        let nonce = vec![0x5au8; nl];
        if let Some(mut g) = G::new(out, &key, &nonce, "alias0") {
            g.setp(out, 1, 0);
            g.getp(out, 1);
            g.refill(out, 10);
            g.setp(out, 0, 0);
            g.getp(out, 0);
            g.refill(out, 10);
        }
    }
    // equality: pairs differing in TWO words by the same XOR delta (differences must not cancel), and complemented keys
    {
        let key = rng.bytes(32);
        let c0 = rng.next();
        let s0 = rng.next();
        let pairs: Vec<(usize, usize)> = if thorough {
            (0..12).flat_map(|a| ((a + 1)..12).map(move |b| (a, b))).collect()
        } else {
            vec![(0, 1), (0, 7), (3, 4), (2, 10), (7, 11), (10, 11), (5, 10), (8, 9), (0, 9), (9, 11), (1, 8), (6, 6)]
        };
        for (pi, (wa, wb)) in pairs.iter().enumerate() {
            let delta: u32 = if pi % 3 == 0 { 0xffff_ffff } else { 1u32 << (rng.below(32)) };
            let mut okey = key.clone();
            let mut oc = c0;
            let mut os = s0;
            for w in [*wa, *wb] {
                match w {
                    0..=7 => {
                        for j in 0..4 {
                            okey[4 * w + j] ^= (delta >> (8 * j)) as u8;
                        }
                    }
                    8 => oc ^= delta as u64,
                    9 => oc ^= (delta as u64) << 32,
                    10 => os ^= delta as u64,
                    _ => os ^= (delta as u64) << 32,
                }
                if wa == wb {
                    break;
                }
            }
            if let Some(mut g) = G::new(out, &key, &[0u8; 8], "eq2") {
                g.setp(out, 0, c0);
                g.setp(out, 1, s0);
                g.eq(out, &okey, &[0u8; 12], oc, os);
            }
        }
        // all-zero key against all-ones key, same everything else
        if let Some(mut g) = G::new(out, &[0u8; 32], &[0u8; 8], "eq2") {
            g.eq(out, &[0xffu8; 32], &[0u8; 8], 0, 0);
            g.eq(out, &[0u8; 32], &[0u8; 8], 0, 0x0000_0003_0000_0003);
            g.setp(out, 1, 0x0000_0001_0000_0001);
            g.eq(out, &[0u8; 32], &[0u8; 8], 0, 0x0000_0003_0000_0003);
        }
    }
    // equality: the four words of row d (counter low/high, stream id low/high) of the other state differ from this one by
    // small ARITHMETIC deltas in every combination (a predicate may compare "distances" instead of words)
    {
        let deltas: [u32; 4] = [0, 1, 0xffff_ffff, 0x8000_0000];
        for base in 0..(if thorough { 3 } else { 1 }) {
            let key = rng.bytes(32);
            let c0 = (rng.next() & 0x7fff_fff0_7fff_fff0) | 0x10_0000_0010;
            let s0 = (rng.next() & 0x7fff_fff0_7fff_fff0) | 0x10_0000_0010;
            for code in 0..256usize {
                let ds = [deltas[code & 3], deltas[(code >> 2) & 3], deltas[(code >> 4) & 3], deltas[(code >> 6) & 3]];
                if !thorough && ds.iter().filter(|d| **d != 0).count() > 2 {
                    continue;
                }
                let w = |x: u64, lo: u32, hi: u32| -> u64 { ((x as u32).wrapping_add(lo) as u64) | ((((x >> 32) as u32).wrapping_add(hi) as u64) << 32) };
                let (oc, os) = (w(c0, ds[0], ds[1]), w(s0, ds[2], ds[3]));
                let nl = if (code + base) % 2 == 0 { 8 } else { 12 };
                if let Some(mut g) = G::new(out, &key, &vec![0u8; nl], "eqgrid") {
                    g.setp(out, 0, c0);
                    g.setp(out, 1, s0);
                    g.eq(out, &key, &vec![0u8; 20 - nl], oc, os);
                }
            }
        }
    }
    // equality: pairs differing in exactly one bit of one of the 12 key/nonce/counter words (and equal pairs)
    let words = if thorough { 3 } else { 1 };
    for rep in 0..words {
        let key = rng.bytes(32);
        let c0 = rng.next();
        let s0 = rng.next();
        for w in 0..13usize {
            let bit = (rng.below(32)) as usize;
            let mut okey = key.clone();
            let mut oc = c0;
            let mut os = s0;
            match w {
                0..=7 => okey[4 * w + bit / 8] ^= 1 << (bit % 8),
                8 => oc ^= 1u64 << bit,
                9 => oc ^= 1u64 << (32 + bit),
                10 => os ^= 1u64 << bit,
                11 => os ^= 1u64 << (32 + bit),
                _ => {}
            }
            let nl = if (w + rep) % 2 == 0 { 8 } else { 12 };
            if let Some(mut g) = G::new(out, &key, &vec![0u8; nl], "eq") {
                g.setp(out, 0, c0);
                g.setp(out, 1, s0);
                g.eq(out, &okey, &vec![0u8; 20 - nl], oc, os);
                g.refill(out, 2);
                g.eq(out, &okey, &vec![0u8; nl], oc, os);
            }
        }
    }
}
