//! Drivers for the ChaCha stream ciphers (C01, C02, C11) and the block-level API (C14, C15).
use crate::util::*;
use c2_chacha::guts::ChaCha;
use c2_chacha::{ChaCha12, ChaCha20, ChaCha8, Ietf, XChaCha12, XChaCha20, XChaCha8};
use cipher::generic_array::GenericArray;
use cipher::{NewCipher, StreamCipher, StreamCipherSeek};

pub const VARIANTS: [&str; 7] = ["ChaCha8", "ChaCha12", "ChaCha20", "Ietf", "XChaCha8", "XChaCha12", "XChaCha20"];
pub const SEEK_TYPES: [&str; 7] = ["u8", "u16", "u32", "u64", "u128", "usize", "i32"];

pub fn nonce_len(variant: &str) -> usize {
    match variant {
        "Ietf" => 12,
        v if v.starts_with('X') => 24,
        _ => 8,
    }
}

/// (have, len, fresh, param0, param1)
pub type Internals = (i64, u64, bool, u64, u64);

pub trait Ciph {
    fn apply(&mut self, d: &mut [u8]) -> Result<(), ()>;
    /// value must fit the type; `neg` only for i32
    fn seek(&mut self, ty: &str, neg: bool, mag: u128) -> Result<(), ()>;
    /// Ok(Some(pos)), Ok(None) = OverflowError
    fn pos(&self, ty: &str) -> Option<u128>;
    fn internals(&self) -> Internals;
    fn set_internals(&mut self, i: Internals);
    /// a copy made the only public way there is: the `state: Buffer` field is public and `Buffer: Clone`
    fn clone_box(&self) -> Box<dyn Ciph>;
}

macro_rules! impl_ciph {
    ($t:ty) => {
        impl Ciph for $t {
            fn apply(&mut self, d: &mut [u8]) -> Result<(), ()> {
                StreamCipher::try_apply_keystream(self, d).map_err(|_| ())
            }
            fn seek(&mut self, ty: &str, neg: bool, mag: u128) -> Result<(), ()> {
                match ty {
                    "u8" => self.try_seek(mag as u8),
                    "u16" => self.try_seek(mag as u16),
                    "u32" => self.try_seek(mag as u32),
                    "u64" => self.try_seek(mag as u64),
                    "u128" => self.try_seek(mag),
                    "usize" => self.try_seek(mag as usize),
                    "i32" => self.try_seek(if neg { -(mag as i64) as i32 } else { mag as i32 }),
                    _ => panic!("harness: seek type"),
                }
                .map_err(|_| ())
            }
            fn pos(&self, ty: &str) -> Option<u128> {
                match ty {
                    "u8" => self.try_current_pos::<u8>().ok().map(|x| x as u128),
                    "u16" => self.try_current_pos::<u16>().ok().map(|x| x as u128),
                    "u32" => self.try_current_pos::<u32>().ok().map(|x| x as u128),
                    "u64" => self.try_current_pos::<u64>().ok().map(|x| x as u128),
                    "u128" => self.try_current_pos::<u128>().ok(),
                    "usize" => self.try_current_pos::<usize>().ok().map(|x| x as u128),
                    "i32" => self.try_current_pos::<i32>().ok().map(|x| x as u128),
                    _ => panic!("harness: pos type"),
                }
            }
            fn internals(&self) -> Internals {
                (
                    self.state.have as i64,
                    self.state.len,
                    self.state.fresh,
                    self.state.state.get_stream_param(0),
                    self.state.state.get_stream_param(1),
                )
            }
            fn clone_box(&self) -> Box<dyn Ciph> {
                // (the struct behind the aliases is not exported and its marker fields are not Clone: functional update from a
                //  throw-away instance supplies the markers, the copied `state` everything else)
                type T = $t;
                let c = T { state: self.state.clone(), ..<$t as NewCipher>::new(&Default::default(), &Default::default()) };
                Box::new(c)
            }
            fn set_internals(&mut self, i: Internals) {
                self.state.have = i.0 as i8;
                self.state.len = i.1;
                self.state.fresh = i.2;
                self.state.state.set_stream_param(0, i.3);
                self.state.state.set_stream_param(1, i.4);
            }
        }
    };
}
impl_ciph!(ChaCha8);
impl_ciph!(ChaCha12);
impl_ciph!(ChaCha20);
impl_ciph!(Ietf);
impl_ciph!(XChaCha8);
impl_ciph!(XChaCha12);
impl_ciph!(XChaCha20);

/// ctor 0: NewCipher::new (GenericArray arguments); ctor 1: NewCipher::new_from_slices
pub fn make_ctor(variant: &str, key: &[u8], nonce: &[u8], ctor: usize) -> Box<dyn Ciph> {
    if ctor % 2 == 0 {
        return make(variant, key, nonce);
    }
    match variant {
        "ChaCha8" => Box::new(ChaCha8::new_from_slices(key, nonce).expect("lengths")),
        "ChaCha12" => Box::new(ChaCha12::new_from_slices(key, nonce).expect("lengths")),
        "ChaCha20" => Box::new(ChaCha20::new_from_slices(key, nonce).expect("lengths")),
        "Ietf" => Box::new(Ietf::new_from_slices(key, nonce).expect("lengths")),
        "XChaCha8" => Box::new(XChaCha8::new_from_slices(key, nonce).expect("lengths")),
        "XChaCha12" => Box::new(XChaCha12::new_from_slices(key, nonce).expect("lengths")),
        "XChaCha20" => Box::new(XChaCha20::new_from_slices(key, nonce).expect("lengths")),
        _ => panic!("harness: variant {}", variant),
    }
}

pub fn make(variant: &str, key: &[u8], nonce: &[u8]) -> Box<dyn Ciph> {
    let k = GenericArray::from_slice(key);
    match variant {
        "ChaCha8" => Box::new(ChaCha8::new(k, GenericArray::from_slice(nonce))),
        "ChaCha12" => Box::new(ChaCha12::new(k, GenericArray::from_slice(nonce))),
        "ChaCha20" => Box::new(ChaCha20::new(k, GenericArray::from_slice(nonce))),
        "Ietf" => Box::new(Ietf::new(k, GenericArray::from_slice(nonce))),
        "XChaCha8" => Box::new(XChaCha8::new(k, GenericArray::from_slice(nonce))),
        "XChaCha12" => Box::new(XChaCha12::new(k, GenericArray::from_slice(nonce))),
        "XChaCha20" => Box::new(XChaCha20::new(k, GenericArray::from_slice(nonce))),
        _ => panic!("harness: variant {}", variant),
    }
}

pub fn total_bytes(variant: &str) -> u128 {
    if variant == "Ietf" {
        1u128 << 38
    } else {
        1u128 << 70
    }
}

const GUARD: usize = 24;

/// One `ks` event: fresh cipher, seek to `pos` (if non-zero), one apply of `data`.
#[allow(clippy::too_many_arguments)]
pub fn ks_event(out: &mut dyn std::io::Write, variant: &str, key: &[u8], nonce: &[u8], pos: u64, data: &[u8], tag: &str) {
    let n = data.len();
    let mut buf = vec![0xa5u8; n + 2 * GUARD];
    buf[GUARD..GUARD + n].copy_from_slice(data);
    let r = guarded(|| {
        // alternate between the two public constructors (the result must not depend on which one built the cipher)
        let mut c = make_ctor(variant, key, nonce, (key[0] ^ key[31] ^ nonce[0]) as usize);
        if pos != 0 {
            c.seek("u64", false, pos as u128).map_err(|_| "seek-err")?;
        }
        c.apply(&mut buf[GUARD..GUARD + n]).map_err(|_| "apply-err")
    });
    let res = match &r {
        Ok(Ok(())) => "ok".to_string(),
        Ok(Err(e)) => e.to_string(),
        Err(p) => format!("panic:{}", sanitize(p)),
    };
    let guard_ok = buf[..GUARD].iter().all(|&x| x == 0xa5) && buf[GUARD + n..].iter().all(|&x| x == 0xa5);
    Ev::new(0, "ks")
        .s("variant", variant)
        .s("tag", tag)
        .bytes("key", key)
        .bytes("nonce", nonce)
        .limbs("pos", pos as u128, 5)
        .i("n", n as i64)
        .bytes("before", data)
        .bytes("after", &buf[GUARD..GUARD + n])
        .b("guard", guard_ok)
        .s("res", &res)
        .emit(out);
}

/// `ks` event reached through a history: warm-up calls whose outputs are discarded, then seek(pos) and one apply.
/// The keystream at a position must not depend on how the position was reached.
///   warm = 1: apply 256*k bytes from 0 (wide path only), then seek back          warm = 2: seek to the next block boundary first
///   warm = 3: apply up to pos + n (narrow tail), then seek back                   warm = 4: failed oversized request first (IETF only meaningful)
#[allow(clippy::too_many_arguments)]
pub fn ks_event_warm(out: &mut dyn std::io::Write, variant: &str, key: &[u8], nonce: &[u8], pos: u64, data: &[u8], warm: u32) {
    let n = data.len();
    let mut buf = vec![0xa5u8; n + 2 * GUARD];
    buf[GUARD..GUARD + n].copy_from_slice(data);
    let r = guarded(|| {
        let mut c = make(variant, key, nonce);
        match warm {
            1 => {
                let upto = ((pos as usize + n + 255) / 256) * 256;
                let mut w = vec![0u8; upto.max(256)];
                c.apply(&mut w).map_err(|_| "warm-err")?;
            }
            2 => {
                c.seek("u64", false, ((pos / 64 + 1) * 64) as u128).map_err(|_| "warm-err")?;
            }
            3 => {
                let mut w = vec![0u8; pos as usize + n];
                c.apply(&mut w).map_err(|_| "warm-err")?;
            }
            _ => {
                c.seek("u64", false, pos as u128 + 3).map_err(|_| "warm-err")?;
                let mut w = vec![0u8; 1 << 12];
                let _ = c.apply(&mut w);
            }
        }
        c.seek("u64", false, pos as u128).map_err(|_| "seek-err")?;
        c.apply(&mut buf[GUARD..GUARD + n]).map_err(|_| "apply-err")
    });
    let res = match &r {
        Ok(Ok(())) => "ok".to_string(),
        Ok(Err(e)) => e.to_string(),
        Err(p) => format!("panic:{}", sanitize(p)),
    };
    let guard_ok = buf[..GUARD].iter().all(|&x| x == 0xa5) && buf[GUARD + n..].iter().all(|&x| x == 0xa5);
    Ev::new(0, "ks")
        .s("variant", variant)
        .s("tag", &format!("warm{}", warm))
        .bytes("key", key)
        .bytes("nonce", nonce)
        .limbs("pos", pos as u128, 5)
        .i("n", n as i64)
        .bytes("before", data)
        .bytes("after", &buf[GUARD..GUARD + n])
        .b("guard", guard_ok)
        .s("res", &res)
        .emit(out);
}

/// C01 driver: structured + random (key, nonce, position, length, data) samples for all 7 types.
pub fn drive_c01(out: &mut dyn std::io::Write, seed: u64, thorough: bool) {
    let mut rng = Rng::new(seed);
    // the repository's own known-answer tests, as events
    let kats: [(&str, &str, &str, u64, usize); 5] = [
        ("ChaCha20", "fa44478c59ca70538e3549096ce8b523232c50d9e8e8d10c203ef6c8d07098a5", "8d3a0d6d7827c007", 0x3fffffff70, 256),
        ("ChaCha12", "27fc120b013b829f1faeefd1ab417e8662f43e0d73f98de866e346353180fdb7", "db4b4a41d8df18aa", 0, 100),
        ("ChaCha8", "641aeaeb08036b617a42cf14e8c5d2d115f8d7cb6ea5e28b9bfaf83e038426a7", "a14a1168271d459b", 0, 100),
        ("Ietf", "000102030405060708090a0b0c0d0e0f101112131415161718191a1b1c1d1e1f", "000000090000004a00000000", 64, 64),
        ("XChaCha20", "82f411a074f656c66e7dbddb0a2c1b22760b9b2105f4ffdbb1d4b1e824e21def", "3b07ca6e729eb44a510b7a1be51847838a804f8b106b38bd", 0, 100),
    ];
    for (v, k, n, pos, len) in kats.iter() {
        ks_event(out, v, &unhex(k), &unhex(n), *pos, &vec![0u8; *len], "kat");
    }
    let lens_q: [usize; 8] = [1, 63, 64, 65, 255, 256, 257, 600];
    let lens_t: [usize; 12] = [1, 2, 63, 64, 65, 127, 255, 256, 257, 511, 513, 1000];
    for variant in VARIANTS.iter() {
        let nl = nonce_len(variant);
        let total = total_bytes(variant);
        // (i) single-bit keys and nonces at blocks 0 and 1 (layout / endianness)
        let kbits: Vec<usize> = if thorough { (0..256).collect() } else { (0..256).step_by(9).chain([7, 31, 32, 127, 128, 255]).collect() };
        for bit in kbits {
            let mut key = vec![0u8; 32];
            key[bit / 8] |= 1 << (bit % 8);
            let nonce = vec![0u8; nl];
            ks_event(out, variant, &key, &nonce, 0, &vec![0u8; 80], "keybit");
        }
        let nbits: Vec<usize> = if thorough { (0..nl * 8).collect() } else { (0..nl * 8).step_by(5).chain([nl * 8 - 1]).collect() };
        for bit in nbits {
            let key = vec![0u8; 32];
            let mut nonce = vec![0u8; nl];
            nonce[bit / 8] |= 1 << (bit % 8);
            ks_event(out, variant, &key, &nonce, 32, &vec![0u8; 70], "noncebit");
        }
        // (ii) random keys/nonces x position classes x lengths
        let mut positions: Vec<u64> = vec![0, 17, 64, 200, (1u64 << 38) - 64, (1u64 << 38) - 300];
        if *variant != "Ietf" {
            positions.extend_from_slice(&[
                (1u64 << 38) - 1,
                (1u64 << 38) + 5,
                u64::MAX - 63,
                u64::MAX - 1000,
                (1u64 << 38) * 3 + 77,
                0x8000_0000_0000_0000,
            ]);
        }
        let reps = if thorough { 24 } else { 1 };
        for _ in 0..reps {
            for &p in positions.iter() {
                let lens: &[usize] = if thorough { &lens_t } else { &lens_q };
                for &l in lens.iter() {
                    if !thorough && rng.below(3) != 0 {
                        continue;
                    }
                    // stay inside the keystream
                    let l = std::cmp::min(l as u128, total.saturating_sub(p as u128)).min(u64::MAX as u128 - p as u128 + 1) as usize;
                    if l == 0 {
                        continue;
                    }
                    let key = rng.bytes(32);
                    let nonce = rng.bytes(nl);
                    let data = match rng.below(3) {
                        0 => vec![0u8; l],
                        1 => vec![0xffu8; l],
                        _ => rng.bytes(l),
                    };
                    ks_event(out, variant, &key, &nonce, p, &data, "rand");
                }
            }
        }
        // (ii') the same positions reached through a history (wide path, aligned seek, narrow tail, failed request before)
        for warm in 1..=4u32 {
            for &(p, l) in [(200u64, 90usize), (0, 64), (449, 5), (192, 64), (255, 2)].iter() {
                let key = rng.bytes(32);
                let nonce = rng.bytes(nl);
                let p = if warm == 4 && *variant == "Ietf" { (1u64 << 38) - 64 + (p % 60) } else { p };
                let l = if warm == 4 && *variant == "Ietf" { 1 + l % 3 } else { l };
                ks_event_warm(out, variant, &key, &nonce, p, &rng.bytes(l), warm);
            }
        }
        // (ii'') the low counter word's carry at every phase of the 4-block refill: requests that start k blocks before a
        // multiple of 2^32 blocks and run well past it (64-bit-counter types), k = 1..8, block-aligned and not
        if *variant != "Ietf" {
            for k in 1..=8u64 {
                for (m, r) in [(1u64, 0u64), (1, 7), (2 + (seed % 5), 33)] {
                    if !thorough && (k + m + seed) % 2 == 0 && r != 0 {
                        continue;
                    }
                    let p = m * (1u64 << 38) - 64 * k + r;
                    let key = rng.bytes(32);
                    let nonce = rng.bytes(nl);
                    ks_event(out, variant, &key, &nonce, p, &vec![0u8; (64 * k + 600) as usize], "carry");
                }
            }
        }
        // (ii-c) structured keys and nonces: equal key halves, one repeated byte, bytes with the top bit set, zero stretches
        // inside the nonce (each 4-byte nonce word zero in turn)
        {
            let half = rng.bytes(16);
            let mut k_eq = half.clone();
            k_eq.extend_from_slice(&half);
            let r = rng.bytes(32);
            let mut kn: Vec<(Vec<u8>, Vec<u8>)> = vec![
                (k_eq, rng.bytes(nl)),
                (vec![0x61u8; 32], rng.bytes(nl)),
                (r.iter().map(|b| b | 0x80).collect(), rng.bytes(nl).iter().map(|b| b | 0x80).collect()),
                (r.clone(), vec![0x80u8; nl]),
            ];
            // key halves equal except for one word
            for w in 0..4usize {
                let h2 = rng.bytes(16);
                let mut k = [h2.clone(), h2].concat();
                k[16 + 4 * w + 1] ^= 0x40;
                kn.push((k, rng.bytes(nl)));
            }
            for w in 0..nl / 4 {
                let mut n = rng.bytes(nl).iter().map(|b| b | 1).collect::<Vec<u8>>();
                for x in n[4 * w..4 * w + 4].iter_mut() {
                    *x = 0;
                }
                kn.push((r.clone(), n));
            }
            for (i, (k, n)) in kn.iter().enumerate() {
                ks_event(out, variant, k, n, [0u64, 37, 64, 300][i % 4], &vec![0u8; [70usize, 137, 204, 600][i % 4]], "structured");
            }
        }
        // (iii) all-ones key and nonce (carries everywhere)
        ks_event(out, variant, &vec![0xffu8; 32], &vec![0xffu8; nl], 3, &vec![0u8; 130], "ones");
    }
}

// ------------------------------------------------------------------------------------------------
// guts: block-level API (C14, C15)

pub fn guts_new(key: &[u8], nonce: &[u8]) -> ChaCha {
    let mut k = [0u8; 32];
    k.copy_from_slice(key);
    ChaCha::new(&k, nonce)
}

// ------------------------------------------------------------------------------------------------
// histories: C02 / C11

fn res_str<T>(r: &Result<Result<T, ()>, String>) -> String {
    match r {
        Ok(Ok(_)) => "ok".into(),
        Ok(Err(())) => "err".into(),
        Err(p) => format!("panic:{}", sanitize(p)),
    }
}

pub struct Episode {
    pub c: Box<dyn Ciph>,
    pub k: usize,
    pub with_internals: bool,
}

fn internals_json(c: &dyn Ciph) -> String {
    let (have, len, fresh, p0, p1) = c.internals();
    let lim = |v: u64| -> String { (0..4).map(|i| ((v >> (16 * i)) & 0xffff).to_string()).collect::<Vec<_>>().join(",") };
    format!("{{\"have\":{},\"len\":[{}],\"fresh\":{},\"p0\":[{}],\"p1\":[{}]}}", have, lim(len), fresh, lim(p0), lim(p1))
}

impl Episode {
    /// continue on a copy of the instance (no event: a copy behaves exactly like the original, so the history is unchanged)
    pub fn clone_swap(&mut self) {
        let c = self.c.clone_box();
        self.c = c;
    }
    pub fn start(out: &mut dyn std::io::Write, variant: &str, key: &[u8], nonce: &[u8], tag: &str, with_internals: bool) -> Episode {
        let c = make_ctor(variant, key, nonce, (key[1] ^ nonce[1]) as usize);
        let mut e = Ev::new(0, "new").s("variant", variant).s("tag", tag).bytes("key", key).bytes("nonce", nonce);
        if with_internals {
            e = e.raw("st", &internals_json(&*c));
        }
        e.emit(out);
        Episode { c, k: 0, with_internals }
    }
    fn fin(&self, mut e: Ev, out: &mut dyn std::io::Write) {
        if self.with_internals {
            e = e.raw("st", &internals_json(&*self.c));
        }
        e.emit(out);
    }
    pub fn seek(&mut self, out: &mut dyn std::io::Write, ty: &str, neg: bool, mag: u128) {
        self.k += 1;
        let c = &mut self.c;
        let r = guarded(|| c.seek(ty, neg, mag));
        let e = Ev::new(self.k, "seek").s("ty", ty).b("neg", neg).limbs("val", mag, 8).s("res", &res_str(&r));
        self.fin(e, out);
    }
    pub fn apply(&mut self, out: &mut dyn std::io::Write, data: &[u8]) {
        self.k += 1;
        let n = data.len();
        let mut buf = vec![0x5au8; n + 2 * GUARD];
        buf[GUARD..GUARD + n].copy_from_slice(data);
        let c = &mut self.c;
        let r = guarded(|| c.apply(&mut buf[GUARD..GUARD + n]));
        let guard_ok = buf[..GUARD].iter().all(|&x| x == 0x5a) && buf[GUARD + n..].iter().all(|&x| x == 0x5a);
        let e = Ev::new(self.k, "apply")
            .i("n", n as i64)
            .bytes("before", data)
            .bytes("after", &buf[GUARD..GUARD + n])
            .b("guard", guard_ok)
            .s("res", &res_str(&r));
        self.fin(e, out);
    }
    pub fn pos(&mut self, out: &mut dyn std::io::Write, ty: &str) {
        self.k += 1;
        let c = &self.c;
        let r = guarded(|| c.pos(ty));
        let (res, val) = match &r {
            Ok(Some(v)) => ("ok".to_string(), *v),
            Ok(None) => ("ovf".to_string(), 0),
            Err(p) => (format!("panic:{}", sanitize(p)), 0),
        };
        let e = Ev::new(self.k, "pos").s("ty", ty).limbs("val", val, 8).s("res", &res);
        self.fin(e, out);
    }
}

impl Episode {
    /// Enter, through the public fields, the state the cipher has after consuming `2^64 - left` blocks.
    pub fn teleport_end64(&mut self, out: &mut dyn std::io::Write, left: u64) {
        self.k += 1;
        let (_, _, _, _, p1) = self.c.internals();
        self.c.set_internals((0, left, false, 0u64.wrapping_sub(left), p1));
        let pos: u128 = ((1u128 << 64) - left as u128) * 64;
        let e = Ev::new(self.k, "teleport").limbs("pos", pos, 5).s("res", "ok");
        self.fin(e, out);
    }
}

/// C11: the 2^64-block end of the 64-bit-counter variants, entered through Buffer's public fields.
pub fn drive_end64(out: &mut dyn std::io::Write, seed: u64, thorough: bool) {
    let mut rng = Rng::new(seed ^ 0xe64);
    let lefts: &[u64] = if thorough { &[0, 1, 2, 3, 4, 5, 8, 9] } else { &[0, 1, 2, 4, 5] };
    for (vi, variant) in VARIANTS.iter().enumerate() {
        if *variant == "Ietf" {
            continue;
        }
        for &left in lefts {
            for round in 0..(if thorough { 6 } else { 2 }) {
                let key = rng.bytes(32);
                let nonce = rng.bytes(nonce_len(variant));
                let mut ep = Episode::start(out, variant, &key, &nonce, "end64", true);
                ep.teleport_end64(out, left);
                ep.pos(out, "u128");
                let room = left as usize * 64;
                // first request: below, exactly at, or beyond the limit
                let first = match (round + vi) % 4 {
                    0 => room,
                    1 => room + 1,
                    2 => room.saturating_sub(1),
                    _ => room / 2 + rng.below(3) as usize,
                };
                let d = pattern(&mut rng, first);
                ep.apply(out, &d);
                ep.pos(out, "u128");
                ep.pos(out, "u64");
                ep.apply(out, &pattern(&mut rng, 1));
                ep.apply(out, &[]);
                let d = pattern(&mut rng, room + 65);
                ep.apply(out, &d);
                ep.pos(out, "u128");
                // still usable: go back and read
                ep.seek(out, "u64", false, 70);
                ep.apply(out, &pattern(&mut rng, 60));
                ep.pos(out, "u16");
            }
        }
    }
}

pub fn type_max(ty: &str) -> u128 {
    match ty {
        "u8" => u8::MAX as u128,
        "u16" => u16::MAX as u128,
        "u32" => u32::MAX as u128,
        "u64" | "usize" => u64::MAX as u128,
        "u128" => u128::MAX,
        "i32" => i32::MAX as u128,
        _ => panic!("harness: type"),
    }
}

fn pattern(rng: &mut Rng, n: usize) -> Vec<u8> {
    match rng.below(4) {
        0 => vec![0u8; n],
        1 => vec![0xffu8; n],
        _ => rng.bytes(n),
    }
}

/// Script runner: line-based commands generated from TLC's state graph (spec -> impl).
///   new <variant> <keyhex> <noncehex> <tag> | seek <ty> <neg 0/1> <mag decimal> | apply <n> | pos <ty>
pub fn run_script(out: &mut dyn std::io::Write, path: &str, seed: u64, with_internals: bool) {
    let text = std::fs::read_to_string(path).expect("script");
    let mut rng = Rng::new(seed);
    let mut ep: Option<Episode> = None;
    for line in text.lines() {
        let f: Vec<&str> = line.split_whitespace().collect();
        if f.is_empty() || f[0].starts_with('#') {
            continue;
        }
        match f[0] {
            "new" => ep = Some(Episode::start(out, f[1], &unhex(f[2]), &unhex(f[3]), f[4], with_internals)),
            "seek" => ep.as_mut().unwrap().seek(out, f[1], f[2] == "1", f[3].parse().unwrap()),
            "apply" => {
                let n: usize = f[1].parse().unwrap();
                let d = pattern(&mut rng, n);
                ep.as_mut().unwrap().apply(out, &d)
            }
            "pos" => ep.as_mut().unwrap().pos(out, f[1]),
            "clone" => ep.as_mut().unwrap().clone_swap(),
            _ => panic!("harness: script line {}", line),
        }
    }
}

/// Random histories concentrated at the landmarks (impl -> spec).
pub fn drive_histories(out: &mut dyn std::io::Write, seed: u64, thorough: bool, with_internals: bool) {
    let mut rng = Rng::new(seed ^ 0xc02);
    let n_eps = if thorough { 600 } else { 70 };
    let steps = if thorough { 30 } else { 14 };
    let lens: [usize; 14] = [0, 1, 2, 31, 63, 64, 65, 127, 128, 129, 255, 256, 257, 400];
    for epi in 0..n_eps {
        let variant = VARIANTS[(epi % 7) as usize];
        let key = rng.bytes(32);
        let mut nonce = rng.bytes(nonce_len(variant));
        if variant == "Ietf" && rng.below(2) == 0 {
            for b in nonce[..4].iter_mut() {
                *b = 0xff;
            }
        }
        let total = total_bytes(variant);
        let marks: Vec<u128> = if variant == "Ietf" {
            vec![0, 1u128 << 38, 64 * 5]
        } else {
            vec![0, 1u128 << 38, (1u128 << 64) - 1, 1u128 << 63, 64 * 7]
        };
        let mut ep = Episode::start(out, variant, &key, &nonce, "rand", with_internals);
        // start some episodes directly near a landmark
        for _ in 0..steps {
            if rng.below(6) == 0 {
                ep.clone_swap();
            }
            match rng.below(10) {
                0..=3 => {
                    // seek near a landmark (or anywhere)
                    let base = *rng.pick(&marks);
                    let delta = *rng.pick(&[0i64, 1, 2, 63, 64, 65, 130, 255, 256, 257, 300, 1000]) as i128;
                    let sign = if rng.below(2) == 0 { -1i128 } else { 1 };
                    let mut p = base as i128 + sign * delta;
                    if rng.below(12) == 0 {
                        p = (rng.next() as u128 % (total.min(u64::MAX as u128) + 1)) as i128;
                    }
                    if p < 0 {
                        p = -p;
                    }
                    let p = p as u128;
                    // choose a type that can express p
                    let fits: Vec<&str> = SEEK_TYPES.iter().cloned().filter(|t| p <= type_max(t)).collect();
                    let ty = *rng.pick(&fits);
                    ep.seek(out, ty, false, p);
                }
                4 => {
                    // arguments the conversion must reject: negative i32, u128 beyond u64
                    if rng.below(2) == 0 {
                        ep.seek(out, "i32", true, 1 + rng.below(1000) as u128);
                    } else {
                        ep.seek(out, "u128", false, (u64::MAX as u128) + 1 + rng.below(5000) as u128);
                    }
                }
                5 => {
                    let ty = *rng.pick(&SEEK_TYPES);
                    ep.pos(out, ty);
                }
                _ => {
                    let n = *rng.pick(&lens);
                    let d = pattern(&mut rng, n);
                    ep.apply(out, &d);
                    if rng.below(3) == 0 {
                        ep.pos(out, "u128");
                    }
                }
            }
        }
    }
    // long histories: hundreds of small requests on one instance (anything counted per call), with requests equal to /
    // one more than the bytes left in the current block, no-op seeks to the current position, and position queries in between
    for (vi, variant) in ["ChaCha12", "Ietf", "XChaCha8"].iter().enumerate() {
        if !thorough && vi != (seed % 3) as usize {
            continue;
        }
        let key = rng.bytes(32);
        let nonce = rng.bytes(nonce_len(variant));
        let mut ep = Episode::start(out, variant, &key, &nonce, "long", with_internals);
        let mut posn: u128 = 0;
        for i in 0..(if thorough { 700 } else { 330 }) {
            let left = (64 - (posn % 64)) as usize;
            let n = match i % 7 {
                0 => left,
                1 => left + 1,
                2 => 0,
                3 => 1 + rng.below(70) as usize,
                4 => 256 - (posn % 256) as usize,
                5 => 3,
                _ => left.saturating_sub(1),
            };
            let d = pattern(&mut rng, n);
            ep.apply(out, &d);
            posn += n as u128;
            if i % 11 == 3 {
                ep.seek(out, "u64", false, posn);
            }
            if i % 13 == 5 {
                ep.pos(out, "u32");
            }
        }
    }
    // the repository's own test histories and their mirror images
    let key = [50u8; 32];
    let mut ep = Episode::start(out, "Ietf", &key, &[44u8; 12], "seek_consistency", with_internals);
    ep.apply(out, &vec![0u8; 1000]);
    for (p, n) in [(128u128, 172usize), (0, 10), (300, 233), (533, 467), (10, 118)] {
        ep.seek(out, "u64", false, p);
        ep.apply(out, &vec![0u8; n]);
        ep.pos(out, "u64");
    }
    for v in ["ChaCha20", "XChaCha12"] {
        // mirror image on 64-bit-counter variants: mid-block-0 seek, then apply
        let mut ep = Episode::start(out, v, &key, &vec![7u8; nonce_len(v)], "mirror", with_internals);
        for (p, n) in [(10u128, 118usize), (0, 10), (1, 1), (63, 2), (128, 172)] {
            ep.seek(out, "u32", false, p);
            ep.apply(out, &vec![0u8; n]);
            ep.pos(out, "u64");
        }
    }
    let mut ep = Episode::start(out, "Ietf", &[0xffu8; 32], &[0u8; 12], "read_last_bytes", with_internals);
    ep.seek(out, "u64", false, 0x40_0000_0000 - 10);
    ep.apply(out, &[0u8; 10]);
    ep.apply(out, &[0u8; 1]);
    ep.seek(out, "u64", false, 0x40_0000_0000 - 10);
    ep.apply(out, &[0u8; 11]);
    ep.apply(out, &[0u8; 10]);
    ep.seek(out, "u64", false, 0);
    ep.apply(out, &[0u8; 70]);
    ep.seek(out, "u64", false, 0x40_0000_0000);
    ep.apply(out, &[0u8; 1]);
    ep.apply(out, &[0u8; 0]);
    ep.seek(out, "u64", false, 0x40_0000_0001);
    ep.seek(out, "u128", false, 0x40_0000_0040);
    ep.pos(out, "u64");
}

/// One `apply_keystream` call over 2^32 + 133 bytes (per-call arithmetic on the slice length, block counts beyond 2^26, the
/// wide-chunk loop running 2^24 times): windows of the produced keystream are recorded as ordinary `ks` events (the function
/// specification recomputes them from the absolute position), the position afterwards must be start + len, and applying the
/// same stream again in < 1 GiB pieces must restore the buffer (history independence between one call and many).
pub fn drive_big(out: &mut dyn std::io::Write, seed: u64, thorough: bool) {
    let mut rng = Rng::new(seed ^ 0xb16);
    let all: [(&str, u64); 4] = [("ChaCha8", 7), ("Ietf", 193), ("XChaCha12", 0), ("ChaCha20", 64)];
    let picks: Vec<(&str, u64)> = if thorough { all.to_vec() } else { vec![all[(seed % 2) as usize * 2], all[1]] };
    for (variant, start) in picks {
        let key = rng.bytes(32);
        let nonce = rng.bytes(nonce_len(variant));
        let len: usize = (1usize << 32) + 133;
        let mut buf = vec![0u8; len];
        let r = guarded(|| {
            let mut c = make(variant, &key, &nonce);
            if start != 0 {
                c.seek("u64", false, start as u128).map_err(|_| "seek-err")?;
            }
            c.apply(&mut buf).map_err(|_| "apply-err")?;
            Ok::<Option<u128>, &str>(c.pos("u128"))
        });
        let (res, pos_after) = match &r {
            Ok(Ok(Some(p))) => ("ok".to_string(), *p),
            Ok(Ok(None)) => ("pos-overflow".to_string(), 0),
            Ok(Err(e)) => (e.to_string(), 0),
            Err(p) => (format!("panic:{}", sanitize(p)), 0),
        };
        if res == "ok" {
            let mut offs: Vec<(usize, usize)> = vec![(0, 130), (57, 70), ((1usize << 32) - 300, 420), (len - 200, 200), ((1usize << 31) - 64, 192)];
            for _ in 0..(if thorough { 12 } else { 4 }) {
                offs.push((rng.below((len - 400) as u64) as usize, 1 + rng.below(300) as usize));
            }
            for (off, n) in offs {
                Ev::new(0, "ks")
                    .s("variant", variant)
                    .s("tag", "bigcall")
                    .bytes("key", &key)
                    .bytes("nonce", &nonce)
                    .limbs("pos", start as u128 + off as u128, 5)
                    .i("n", n as i64)
                    .bytes("before", &vec![0u8; n])
                    .bytes("after", &buf[off..off + n])
                    .b("guard", true)
                    .s("res", "ok")
                    .emit(out);
            }
        }
        // the same stream again, in pieces: the buffer must be all zero afterwards
        let r2 = guarded(|| {
            let mut c = make(variant, &key, &nonce);
            if start != 0 {
                c.seek("u64", false, start as u128).map_err(|_| "seek-err")?;
            }
            let step = (1usize << 30) - 24;
            let mut off = 0usize;
            while off < len {
                let n = std::cmp::min(step, len - off);
                c.apply(&mut buf[off..off + n]).map_err(|_| "apply-err")?;
                off += n;
            }
            Ok::<(), &str>(())
        });
        let rezero = matches!(r2, Ok(Ok(()))) && buf.iter().all(|&b| b == 0);
        Ev::new(0, "bigcall")
            .s("variant", variant)
            .s("tag", "bigcall")
            .limbs("start", start as u128, 5)
            .limbs("len", len as u128, 5)
            .limbs("pos_after", pos_after, 5)
            .b("rezero", rezero)
            .s("res", &res)
            .emit(out);
    }
}
