//! Shared helpers: deterministic RNG, ndjson event writer, panic capture.
use std::fmt::Write as _;
use std::io::Write as _;
use std::panic::{catch_unwind, AssertUnwindSafe};

pub struct Rng(pub u64);
impl Rng {
    pub fn new(seed: u64) -> Self {
        Rng(seed ^ 0x9e37_79b9_7f4a_7c15)
    }
    pub fn next(&mut self) -> u64 {
        // splitmix64
        self.0 = self.0.wrapping_add(0x9e37_79b9_7f4a_7c15);
        let mut z = self.0;
        z = (z ^ (z >> 30)).wrapping_mul(0xbf58_476d_1ce4_e5b9);
        z = (z ^ (z >> 27)).wrapping_mul(0x94d0_49bb_1331_11eb);
        z ^ (z >> 31)
    }
    pub fn below(&mut self, n: u64) -> u64 {
        self.next() % n
    }
    pub fn fill(&mut self, b: &mut [u8]) {
        for x in b.iter_mut() {
            *x = self.next() as u8;
        }
    }
    pub fn bytes(&mut self, n: usize) -> Vec<u8> {
        let mut v = vec![0u8; n];
        self.fill(&mut v);
        v
    }
    pub fn pick<'a, T>(&mut self, xs: &'a [T]) -> &'a T {
        &xs[self.below(xs.len() as u64) as usize]
    }
}

/// One ndjson record under construction.
pub struct Ev {
    s: String,
}
impl Ev {
    pub fn new(k: usize, ev: &str) -> Self {
        let mut s = String::with_capacity(256);
        write!(s, "{{\"k\":{},\"ev\":\"{}\"", k, ev).unwrap();
        Ev { s }
    }
    pub fn s(mut self, key: &str, v: &str) -> Self {
        write!(self.s, ",\"{}\":\"{}\"", key, v).unwrap();
        self
    }
    pub fn i(mut self, key: &str, v: i64) -> Self {
        write!(self.s, ",\"{}\":{}", key, v).unwrap();
        self
    }
    pub fn b(mut self, key: &str, v: bool) -> Self {
        write!(self.s, ",\"{}\":{}", key, if v { "true" } else { "false" }).unwrap();
        self
    }
    pub fn bytes(mut self, key: &str, v: &[u8]) -> Self {
        write!(self.s, ",\"{}\":[", key).unwrap();
        for (i, x) in v.iter().enumerate() {
            if i > 0 {
                self.s.push(',');
            }
            write!(self.s, "{}", x).unwrap();
        }
        self.s.push(']');
        self
    }
    pub fn ints(mut self, key: &str, v: &[i64]) -> Self {
        write!(self.s, ",\"{}\":[", key).unwrap();
        for (i, x) in v.iter().enumerate() {
            if i > 0 {
                self.s.push(',');
            }
            write!(self.s, "{}", x).unwrap();
        }
        self.s.push(']');
        self
    }
    /// little-endian 16-bit limbs of an unsigned value
    pub fn limbs(self, key: &str, v: u128, n: usize) -> Self {
        let l: Vec<i64> = (0..n).map(|i| ((v >> (16 * i)) & 0xffff) as i64).collect();
        self.ints(key, &l)
    }
    /// sequence of words, each as `n` limbs
    pub fn words(mut self, key: &str, ws: &[u128], n: usize) -> Self {
        write!(self.s, ",\"{}\":[", key).unwrap();
        for (j, w) in ws.iter().enumerate() {
            if j > 0 {
                self.s.push(',');
            }
            self.s.push('[');
            for i in 0..n {
                if i > 0 {
                    self.s.push(',');
                }
                write!(self.s, "{}", (w >> (16 * i)) & 0xffff).unwrap();
            }
            self.s.push(']');
        }
        self.s.push(']');
        self
    }
    pub fn raw(mut self, key: &str, json: &str) -> Self {
        write!(self.s, ",\"{}\":{}", key, json).unwrap();
        self
    }
    pub fn emit(mut self, out: &mut dyn std::io::Write) {
        self.s.push_str("}\n");
        out.write_all(self.s.as_bytes()).unwrap();
    }
}

/// Run `f`, turning a panic into `Err(message)`.
pub fn guarded<T>(f: impl FnOnce() -> T) -> Result<T, String> {
    match catch_unwind(AssertUnwindSafe(f)) {
        Ok(v) => Ok(v),
        Err(e) => Err(if let Some(s) = e.downcast_ref::<&str>() {
            s.to_string()
        } else if let Some(s) = e.downcast_ref::<String>() {
            s.clone()
        } else {
            "panic".to_string()
        }),
    }
}

pub fn quiet_panics() {
    std::panic::set_hook(Box::new(|_| {}));
}

pub fn sanitize(s: &str) -> String {
    s.chars()
        .map(|c| if c.is_ascii_alphanumeric() || " _-:.,()<>=+*/!".contains(c) { c } else { '?' })
        .take(120)
        .collect()
}

pub fn hex(b: &[u8]) -> String {
    let mut s = String::new();
    for x in b {
        write!(s, "{:02x}", x).unwrap();
    }
    s
}
pub fn unhex(s: &str) -> Vec<u8> {
    let s: Vec<u8> = s.bytes().filter(|c| c.is_ascii_hexdigit()).collect();
    s.chunks(2)
        .map(|p| u8::from_str_radix(std::str::from_utf8(p).unwrap(), 16).unwrap())
        .collect()
}

pub fn open_out(path: Option<&str>) -> Box<dyn std::io::Write> {
    match path {
        Some(p) => Box::new(std::io::BufWriter::new(std::fs::File::create(p).expect("create out"))),
        None => Box::new(std::io::BufWriter::new(std::io::stdout())),
    }
}

pub fn flush(out: &mut dyn std::io::Write) {
    out.flush().unwrap();
}
