//! The 15 hash types behind one object-safe facade, and the drivers for C04-C08.
use crate::util::*;
use digest::generic_array::typenum::*;
use digest::Digest;

pub trait Hx {
    fn upd(&mut self, d: &[u8]);
    fn fin_reset(&mut self) -> Vec<u8>;
    /// the public ways to finalize and reset: 0 Digest::finalize_reset, 1 FixedOutput::finalize_fixed_reset,
    /// 2 FixedOutput::finalize_into_reset, 3 FixedOutputDirty::finalize_into_dirty + Reset::reset
    fn fin_reset_how(&mut self, how: usize) -> Vec<u8>;
    /// the public ways to finalize: 0 Digest::finalize, 1 FixedOutput::finalize_fixed, 2 FixedOutput::finalize_into
    fn fin_how(self: Box<Self>, how: usize) -> Vec<u8>;
    fn fin(self: Box<Self>) -> Vec<u8>;
    /// finalize straight into a caller-provided slice of exactly the output size (C16: the slice lives in guarded memory):
    /// how 0 finalize_into (consuming clone), 1 finalize_into_reset, 2 finalize_into_dirty
    fn fin_into_slice(&mut self, out: &mut [u8], how: usize);
    fn rst(&mut self);
    fn cl(&self) -> Box<dyn Hx>;
    fn as_any(&self) -> &dyn std::any::Any;
    /// `Clone::clone_from(self, src)`: overwrite a live instance with a copy of another one of the same type
    fn cl_from(&mut self, src: &dyn Hx);
    fn chain_fin(self: Box<Self>, d: &[u8]) -> Vec<u8>;
    /// `Digest::digest(msg)`: the one-call convenience constructor + update + finalize
    fn static_digest(&self, d: &[u8]) -> Vec<u8>;
    /// `{:?}` must not panic
    fn debug_string(&self) -> String;
    /// (BlockInput::BlockSize, OutputSize)
    fn sizes(&self) -> (usize, usize);
}
impl<D: Digest + digest::FixedOutput + digest::FixedOutputDirty + digest::Reset + digest::BlockInput + core::fmt::Debug + Clone + 'static> Hx for D {
    fn static_digest(&self, d: &[u8]) -> Vec<u8> {
        <D as Digest>::digest(d).to_vec()
    }
    fn debug_string(&self) -> String {
        format!("{:?}", self)
    }
    fn sizes(&self) -> (usize, usize) {
        (<<D as digest::BlockInput>::BlockSize as digest::generic_array::typenum::Unsigned>::to_usize(), <D as Digest>::output_size())
    }
    fn upd(&mut self, d: &[u8]) {
        Digest::update(self, d)
    }
    fn fin_reset(&mut self) -> Vec<u8> {
        Digest::finalize_reset(self).to_vec()
    }
    fn fin_reset_how(&mut self, how: usize) -> Vec<u8> {
        match how % 4 {
            0 => Digest::finalize_reset(self).to_vec(),
            1 => digest::FixedOutput::finalize_fixed_reset(self).to_vec(),
            2 => {
                let mut o = digest::generic_array::GenericArray::default();
                for x in o.iter_mut() {
                    *x = 0xa5; // an output buffer that was used before
                }
                digest::FixedOutput::finalize_into_reset(self, &mut o);
                o.to_vec()
            }
            _ => {
                let mut o = digest::generic_array::GenericArray::default();
                for x in o.iter_mut() {
                    *x = 0xa5; // an output buffer that was used before
                }
                digest::FixedOutputDirty::finalize_into_dirty(self, &mut o);
                digest::Reset::reset(self);
                o.to_vec()
            }
        }
    }
    fn fin_how(self: Box<Self>, how: usize) -> Vec<u8> {
        match how % 3 {
            0 => Digest::finalize(*self).to_vec(),
            1 => digest::FixedOutput::finalize_fixed(*self).to_vec(),
            _ => {
                let mut o = digest::generic_array::GenericArray::default();
                for x in o.iter_mut() {
                    *x = 0xa5; // an output buffer that was used before
                }
                digest::FixedOutput::finalize_into(*self, &mut o);
                o.to_vec()
            }
        }
    }
    fn fin(self: Box<Self>) -> Vec<u8> {
        Digest::finalize(*self).to_vec()
    }
    fn fin_into_slice(&mut self, out: &mut [u8], how: usize) {
        match how % 3 {
            0 => digest::FixedOutput::finalize_into(self.clone(), digest::generic_array::GenericArray::from_mut_slice(out)),
            1 => digest::FixedOutput::finalize_into_reset(self, digest::generic_array::GenericArray::from_mut_slice(out)),
            _ => digest::FixedOutputDirty::finalize_into_dirty(self, digest::generic_array::GenericArray::from_mut_slice(out)),
        }
    }
    fn rst(&mut self) {
        Digest::reset(self)
    }
    fn cl(&self) -> Box<dyn Hx> {
        Box::new(self.clone())
    }
    fn as_any(&self) -> &dyn std::any::Any {
        self
    }
    fn cl_from(&mut self, src: &dyn Hx) {
        let s = src.as_any().downcast_ref::<D>().expect("harness: clone_from across types");
        Clone::clone_from(self, s)
    }
    fn chain_fin(self: Box<Self>, d: &[u8]) -> Vec<u8> {
        Digest::finalize(Digest::chain(*self, d)).to_vec()
    }
}

pub const FIXED_ALGS: [&str; 12] = [
    "Blake224", "Blake256", "Blake384", "Blake512", "Groestl224", "Groestl256", "Groestl384", "Groestl512", "Jh224", "Jh256", "Jh384", "Jh512",
];
/// output lengths that need more than 256 output blocks (the block counter of the output stage leaves its low byte)
pub type UBig256 = digest::generic_array::typenum::Sum<U8192, U8>;       // 8200  > 256 * 32
pub type UBig512 = digest::generic_array::typenum::Sum<U16384, U9>;      // 16393 > 256 * 64
pub type UBig1024 = digest::generic_array::typenum::Sum<U32768, U17>;    // 32785 > 256 * 128
pub type UHuge = digest::generic_array::typenum::Sum<U65536, U39>;        // 65575 bytes: the bit count needs three bytes, the byte count more than 16 bits
pub const SKEIN_N: [usize; 141] = [1, 2, 3, 4, 5, 6, 7, 8, 9, 10, 11, 12, 13, 14, 15, 16, 17, 18, 19, 20, 21, 22, 23, 24, 25, 26, 27, 28, 29, 30, 31, 32, 33, 34, 35, 36, 37, 38, 39, 40, 41, 42, 43, 44, 45, 46, 47, 48, 49, 50, 51, 52, 53, 54, 55, 56, 57, 58, 59, 60, 61, 62, 63, 64, 65, 66, 67, 68, 69, 70, 71, 72, 73, 74, 75, 76, 77, 78, 79, 80, 81, 82, 83, 84, 85, 86, 87, 88, 89, 90, 91, 92, 93, 94, 95, 96, 97, 98, 99, 100, 101, 102, 103, 104, 105, 106, 107, 108, 109, 110, 111, 112, 113, 114, 115, 116, 117, 118, 119, 120, 121, 122, 123, 124, 125, 126, 127, 128, 129, 130, 131, 132, 133, 134, 135, 136, 160, 200, 256, 257, 300];

macro_rules! skein_arms {
    ($ty:ident, $n:expr, $( $num:expr => $U:ty ),* ) => {
        match $n {
            $( $num => Some(Box::new(skein_hash::$ty::<$U>::default()) as Box<dyn Hx>), )*
            _ => None,
        }
    };
}
macro_rules! skein_make {
    ($ty:ident, $n:expr) => {
        skein_arms!($ty, $n, 1 => U1, 2 => U2, 3 => U3, 4 => U4, 5 => U5, 6 => U6, 7 => U7, 8 => U8, 9 => U9, 10 => U10, 11 => U11, 12 => U12, 13 => U13, 14 => U14, 15 => U15, 16 => U16, 17 => U17, 18 => U18, 19 => U19, 20 => U20, 21 => U21, 22 => U22, 23 => U23, 24 => U24, 25 => U25, 26 => U26, 27 => U27, 28 => U28, 29 => U29, 30 => U30, 31 => U31, 32 => U32, 33 => U33, 34 => U34, 35 => U35, 36 => U36, 37 => U37, 38 => U38, 39 => U39, 40 => U40, 41 => U41, 42 => U42, 43 => U43, 44 => U44, 45 => U45, 46 => U46, 47 => U47, 48 => U48, 49 => U49, 50 => U50, 51 => U51, 52 => U52, 53 => U53, 54 => U54, 55 => U55, 56 => U56, 57 => U57, 58 => U58, 59 => U59, 60 => U60, 61 => U61, 62 => U62, 63 => U63, 64 => U64, 65 => U65, 66 => U66, 67 => U67, 68 => U68, 69 => U69, 70 => U70, 71 => U71, 72 => U72, 73 => U73, 74 => U74, 75 => U75, 76 => U76, 77 => U77, 78 => U78, 79 => U79, 80 => U80, 81 => U81, 82 => U82, 83 => U83, 84 => U84, 85 => U85, 86 => U86, 87 => U87, 88 => U88, 89 => U89, 90 => U90, 91 => U91, 92 => U92, 93 => U93, 94 => U94, 95 => U95, 96 => U96, 97 => U97, 98 => U98, 99 => U99, 100 => U100, 101 => U101, 102 => U102, 103 => U103, 104 => U104, 105 => U105, 106 => U106, 107 => U107, 108 => U108, 109 => U109, 110 => U110, 111 => U111, 112 => U112, 113 => U113, 114 => U114, 115 => U115, 116 => U116, 117 => U117, 118 => U118, 119 => U119, 120 => U120, 121 => U121, 122 => U122, 123 => U123, 124 => U124, 125 => U125, 126 => U126, 127 => U127, 128 => U128, 129 => U129, 130 => U130, 131 => U131, 132 => U132, 133 => U133, 134 => U134, 135 => U135, 136 => U136, 160 => U160, 200 => U200, 256 => U256, 257 => U257, 300 => U300)
    };
}

/// alg: one of FIXED_ALGS, or "Skein256" / "Skein512" / "Skein1024" with output length n (bytes)
pub fn make_hash(alg: &str, n: usize) -> Box<dyn Hx> {
    let h: Option<Box<dyn Hx>> = match alg {
        "Blake224" => Some(Box::new(blake_hash::Blake224::default())),
        "Blake256" => Some(Box::new(blake_hash::Blake256::default())),
        "Blake384" => Some(Box::new(blake_hash::Blake384::default())),
        "Blake512" => Some(Box::new(blake_hash::Blake512::default())),
        "Groestl224" => Some(Box::new(groestl_aesni::Groestl224::default())),
        "Groestl256" => Some(Box::new(groestl_aesni::Groestl256::default())),
        "Groestl384" => Some(Box::new(groestl_aesni::Groestl384::default())),
        "Groestl512" => Some(Box::new(groestl_aesni::Groestl512::default())),
        "Jh224" => Some(Box::new(jh_x86_64::Jh224::default())),
        "Jh256" => Some(Box::new(jh_x86_64::Jh256::default())),
        "Jh384" => Some(Box::new(jh_x86_64::Jh384::default())),
        "Jh512" => Some(Box::new(jh_x86_64::Jh512::default())),
        "Skein256" if n == 8200 => Some(Box::new(skein_hash::Skein256::<UBig256>::default())),
        "Skein512" if n == 16393 => Some(Box::new(skein_hash::Skein512::<UBig512>::default())),
        "Skein1024" if n == 32785 => Some(Box::new(skein_hash::Skein1024::<UBig1024>::default())),
        "Skein256" if n == 65575 => Some(Box::new(skein_hash::Skein256::<UHuge>::default())),
        "Skein512" if n == 65575 => Some(Box::new(skein_hash::Skein512::<UHuge>::default())),
        "Skein1024" if n == 65575 => Some(Box::new(skein_hash::Skein1024::<UHuge>::default())),
        "Skein256" => skein_make!(Skein256, n),
        "Skein512" => skein_make!(Skein512, n),
        "Skein1024" => skein_make!(Skein1024, n),
        _ => None,
    };
    h.unwrap_or_else(|| panic!("harness: no hash {} / {}", alg, n))
}

pub fn block_size(alg: &str) -> usize {
    match alg {
        "Blake224" | "Blake256" | "Groestl224" | "Groestl256" | "Skein512" => 64,
        "Blake384" | "Blake512" | "Groestl384" | "Groestl512" | "Skein1024" => 128,
        "Skein256" => 32,
        _ => 64, // JH
    }
}
pub fn out_size(alg: &str, n: usize) -> usize {
    match alg {
        "Blake224" | "Groestl224" | "Jh224" => 28,
        "Blake256" | "Groestl256" | "Jh256" => 32,
        "Blake384" | "Groestl384" | "Jh384" => 48,
        "Blake512" | "Groestl512" | "Jh512" => 64,
        _ => n,
    }
}

/// message content: every byte distinguishable by position (mod 251), or random, or constant
pub fn message(rng: &mut Rng, len: usize, kind: u64) -> Vec<u8> {
    match kind % 4 {
        0 => (0..len).map(|i| ((i * 7 + 3) % 251) as u8).collect(),
        1 => vec![0u8; len],
        2 => vec![0xffu8; len],
        _ => rng.bytes(len),
    }
}

pub fn digest_event(out: &mut dyn std::io::Write, alg: &str, n: usize, msg: &[u8], tag: &str, cfg: &str) {
    digest_event_split(out, alg, n, msg, tag, cfg, 0)
}

/// `split` selects how the same message is fed (the digest must not depend on it): 0 = one update; k > 0 = cut after
/// (k mod len) bytes into two updates; with the top bit set additionally an empty update in between.
pub fn digest_event_split(out: &mut dyn std::io::Write, alg: &str, n: usize, msg: &[u8], tag: &str, cfg: &str, split: usize) {
    let r = guarded(|| {
        let mut h = make_hash(alg, n);
        if split == usize::MAX {
            // Digest::digest (static one-call form); Debug formatting and the declared sizes must be harmless / consistent
            // (BlockInput::BlockSize is NOT asserted: no listed property states it - and for the BLAKE types it is the
            //  output size, 28/32/48/64, rather than the block size; see DESIGN.md A.7)
            let _ = h.debug_string();
            let (_bs, os) = h.sizes();
            assert_eq!(os, out_size(alg, n), "harness: OutputSize table");
            return h.static_digest(msg);
        }
        if split == usize::MAX - 1 {
            // Digest::chain
            let cut = msg.len() / 3;
            let h2 = make_hash(alg, n);
            let _ = h2;
            h.upd(&msg[..cut]);
            return h.chain_fin(&msg[cut..]);
        }
        if split == usize::MAX - 2 {
            // a reused hasher object: an earlier (empty / short / block-sized) message was finalized through one of the
            // *_reset entry points; "every message" includes the ones hashed by an instance that has a past
            let b = block_size(alg);
            let past = [0usize, 0, 1, b - 1, b, b + 1, 0, 2 * b][msg.len() % 8];
            h.upd(&vec![0xa5u8; past]);
            let _ = h.fin_reset_how(1 + msg.len() / 8);
            h.upd(msg);
            return h.fin_reset_how(msg.len() / 3);
        }
        if split & 0x4000_0000 != 0 && split < usize::MAX - 8 {
            // three (or more) pieces: p bytes, then exactly what completes the buffered block plus k whole blocks, then the rest
            let b = block_size(alg);
            let p = 1 + (split & 0xffff) % (b - 1);
            let second = (b - p) + b * ((split >> 16) & 3);
            if msg.len() > p + second {
                h.upd(&msg[..p]);
                h.upd(&msg[p..p + second]);
                let rest = &msg[p + second..];
                let cut = rest.len() / 2;
                h.upd(&rest[..cut]);
                h.upd(&rest[cut..]);
                return h.fin();
            }
        }
        if split == 0 || msg.len() < 2 {
            h.upd(msg);
        } else {
            let cut = 1 + (split % (msg.len() - 1));
            // empty updates before the first piece / between the pieces / after the last one, by bits of `split`
            if split & 0x2000 != 0 {
                h.upd(&[]);
            }
            h.upd(&msg[..cut]);
            if split & 0x8000 != 0 {
                h.upd(&[]);
            }
            h.upd(&msg[cut..]);
            if split & 0x1000 != 0 {
                h.upd(&[]);
            }
        }
        h.fin()
    });
    let (res, o) = match r {
        Ok(o) => ("ok".to_string(), o),
        Err(p) => (format!("panic:{}", sanitize(&p)), vec![]),
    };
    Ev::new(0, "digest").s("alg", alg).i("n", out_size(alg, n) as i64).s("tag", tag).s("cfg", cfg).bytes("msg", msg).bytes("out", &o).s("res", &res).emit(out);
}

/// chaining value (as the implementation stores it, read through hook H2) after `prefix` has been absorbed; None where no hook exists
pub fn chain_of(alg: &str, prefix: &[u8]) -> Option<Vec<u8>> {
    macro_rules! via {
        ($T:ty, $conv:expr) => {{
            let mut h = <$T>::default();
            Digest::update(&mut h, prefix);
            Some($conv(h.verif_chain()))
        }};
    }
    let w32 = |w: [u32; 8]| -> Vec<u8> { w.iter().flat_map(|x| x.to_be_bytes()).collect() };
    let w64 = |w: [u64; 8]| -> Vec<u8> { w.iter().flat_map(|x| x.to_be_bytes()).collect() };
    match alg {
        "Blake224" => via!(blake_hash::Blake224, w32),
        "Blake256" => via!(blake_hash::Blake256, w32),
        "Blake384" => via!(blake_hash::Blake384, w64),
        "Blake512" => via!(blake_hash::Blake512, w64),
        "Jh224" => via!(jh_x86_64::Jh224, |c: [u8; 128]| c.to_vec()),
        "Jh256" => via!(jh_x86_64::Jh256, |c: [u8; 128]| c.to_vec()),
        "Jh384" => via!(jh_x86_64::Jh384, |c: [u8; 128]| c.to_vec()),
        "Jh512" => via!(jh_x86_64::Jh512, |c: [u8; 128]| c.to_vec()),
        "Skein256" => via!(skein_hash::Skein256<U32>, |c: digest::generic_array::GenericArray<u8, U32>| c.to_vec()),
        "Skein512" => via!(skein_hash::Skein512<U64>, |c: digest::generic_array::GenericArray<u8, U64>| c.to_vec()),
        "Skein1024" => via!(skein_hash::Skein1024<U128>, |c: digest::generic_array::GenericArray<u8, U128>| c.to_vec()),
        _ => None,
    }
}

/// C04 / C06 / C07 (fixed-output families) and C05 (Skein): one-shot digests over a length sweep.
pub fn drive_digests(out: &mut dyn std::io::Write, family: &str, seed: u64, thorough: bool, cfg: &str) {
    let mut rng = Rng::new(seed ^ 0xd16);
    let algs: Vec<&str> = match family {
        "blake" => vec!["Blake224", "Blake256", "Blake384", "Blake512"],
        "groestl" => vec!["Groestl224", "Groestl256", "Groestl384", "Groestl512"],
        "jh" => vec!["Jh224", "Jh256", "Jh384", "Jh512"],
        "skein" => vec!["Skein256", "Skein512", "Skein1024"],
        _ => panic!("harness: family"),
    };
    for (ai, alg) in algs.iter().enumerate() {
        let b = block_size(alg);
        let ns: Vec<usize> = if family == "skein" {
            if thorough { SKEIN_N.to_vec() } else { SKEIN_N.iter().cloned().filter(|n| [1usize, 7, 8, 31, 32, 33, 64, 65, 128, 129, 200, 300].contains(n)).collect() }
        } else {
            vec![0]
        };
        // every length 0..2B+17 (thorough) / all boundary lengths plus a rotating residue subset (quick)
        let maxlen = if thorough { 4 * b + 17 } else { 2 * b + 17 };
        let reps = if thorough { 3 } else { 1 };
        let mut lens: Vec<usize> = vec![];
        for l in 0..=maxlen {
            let boundary = [0usize, 1, 2].contains(&l)
                || (l + 20) % b <= 22 // the one-vs-two final block boundaries (footers of 9, 17 bytes; groestl 8+1; jh) and block multiples
                || l % b == b / 2;
            if thorough || boundary || (l + ai + seed as usize) % 7 == 0 {
                lens.push(l);
            }
        }
        for (li, &l) in lens.iter().cycle().take(lens.len() * reps).enumerate() {
            // thorough: three passes over the lengths; the content kind, the output length and the feeding style rotate between passes
            let li = li + li / lens.len();
            let n = ns[(li + ai) % ns.len()];
            let m = message(&mut rng, l, (li + ai) as u64);
            // two thirds of the sweep feed the message in one call, one third in two pieces cut at a pseudo-random point
            let split = match (li + ai) % 9 {
                2 => 1 + rng.below(0xffff) as usize,
                5 => 0x4000_0000 | rng.below(0x3_ffff) as usize,
                8 => usize::MAX,
                7 => usize::MAX - 1,
                4 => usize::MAX - 2,
                _ => 0,
            };
            digest_event_split(out, alg, n, &m, "sweep", cfg, split);
        }
        if family == "skein" {
            // every output length against a few message shapes (empty, one byte, exactly one block, block + 1)
            // (every N in 1..=136 and a few larger ones: an implementation may special-case "standard" sizes)
            for &n in SKEIN_N.iter() {
                let ls: Vec<usize> = if thorough || ns.contains(&n) { vec![0usize, 1, b, b + 1] } else if n % 2 == 0 { vec![0usize] } else { vec![b + 1] };
                for &l in ls.iter() {
                    let m = message(&mut rng, l, n as u64);
                    digest_event(out, alg, n, &m, "outlen", cfg);
                }
            }
        }
        if family == "skein" && (thorough || ai == (seed as usize) % 3) {
            // 65575 output bytes: recorded and validated as windows of output blocks (first, around block 256, last incl. the partial one)
            let n = 65575usize;
            let m = message(&mut rng, 9, 3);
            let r = guarded(|| {
                let mut h = make_hash(alg, n);
                h.upd(&m);
                h.fin()
            });
            let nblocks = (n + b - 1) / b;
            for (blk, nblk) in [(0usize, 2usize), (255, 3), (nblocks - 2, 2)] {
                let (res, total, win) = match &r {
                    Ok(o) => ("ok".to_string(), o.len(), o[blk * b..std::cmp::min((blk + nblk) * b, o.len())].to_vec()),
                    Err(p) => (format!("panic:{}", sanitize(p)), 0, vec![]),
                };
                Ev::new(0, "digestw").s("alg", alg).i("n", n as i64).s("tag", "hugeout").s("cfg", cfg).bytes("msg", &m).i("blk", blk as i64).i("nblk", nblk as i64)
                    .i("total", total as i64).bytes("out", &win).s("res", &res).emit(out);
            }
        }
        if family == "skein" {
            // more than 256 output blocks (quick: the 256-bit state only; thorough: all three)
            let big = match *alg { "Skein256" => 8200, "Skein512" => 16393, _ => 32785 };
            if thorough || *alg == "Skein256" {
                let m = message(&mut rng, 5, 3);
                digest_event(out, alg, big, &m, "bigout", cfg);
            }
        }
        // block-level content patterns: every word over {zero block, 0xff block, one fixed random block} up to a length
        // (runs of identical blocks, a run followed by a run of another value, alternations) - state carried from one
        // compression to the next may depend on block CONTENT, which length sweeps with one content per length never vary
        {
            let syms: [Vec<u8>; 3] = [vec![0u8; b], vec![0xffu8; b], rng.bytes(b)];
            let maxw = if family == "blake" { if thorough { 6 } else { 4 } } else if thorough { 4 } else { 3 };
            let mut idx = 0usize;
            for wl in 1..=maxw {
                for code in 0..3usize.pow(wl as u32) {
                    idx += 1;
                    // the slow specifications (JH, Groestl, Skein in TLC) take a rotating third of the words in the quick tier
                    if family != "blake" && !thorough && (idx + ai + seed as usize) % 3 != 0 {
                        continue;
                    }
                    let mut m: Vec<u8> = vec![];
                    let mut c = code;
                    for _ in 0..wl {
                        m.extend_from_slice(&syms[c % 3]);
                        c /= 3;
                    }
                    if idx % 2 == 0 {
                        m.extend_from_slice(&syms[idx % 3][..5 + idx % 7]);
                    }
                    let n = ns[idx % ns.len()];
                    digest_event_split(out, alg, n, &m, "blockpat", cfg, if idx % 5 == 0 { 1 + rng.below(0xffff) as usize } else { 0 });
                }
            }
        }
        // sparse blocks and holes: one non-zero byte in an otherwise zero message, and random blocks with one aligned all-zero
        // word (4 / 8 / 16 bytes) in front of non-zero data - zero words inside a block are what "skip the zero fill" shortcuts key on
        {
            let mut idx = 0usize;
            for wlen in [8usize, 4, 16] {
                for w in 0..(b / wlen) {
                    idx += 1;
                    if !thorough && (wlen != 8 || family != "blake") && (idx + ai + seed as usize) % 3 != 0 {
                        continue;
                    }
                    let mut m = rng.bytes(b + 9);
                    for x in m[w * wlen..(w + 1) * wlen].iter_mut() {
                        *x = 0;
                    }
                    let n = ns[idx % ns.len()];
                    digest_event(out, alg, n, &m, "hole", cfg);
                    if wlen == 8 {
                        let mut z = vec![0u8; b + (idx % 3) * b];
                        let at = w * wlen + (idx % wlen);
                        z[at] = 1 + (idx as u8);
                        digest_event(out, alg, n, &z, "sparse", cfg);
                    }
                }
            }
        }
        // "echo" blocks: message blocks assembled from pieces of the chaining value they are compressed into (the IV for the
        // first block, the value read through hook H2 after a prefix otherwise): message and state meet in the compression
        // function, and equal / cancelling words there are unreachable by content that does not know the state
        if family != "groestl" {
            let nfix = if family == "skein" { b } else { 0 };
            for (pi, plen) in [0usize, b, 2 * b].iter().enumerate() {
                let prefix = rng.bytes(*plen);
                if let Some(chain) = chain_of(alg, &prefix) {
                    let mut variants: Vec<Vec<u8>> = vec![];
                    // every 16-byte-aligned window of the chaining value at every 16-byte-aligned offset of an otherwise random block
                    // (quick: 32-byte windows / offsets), the whole block taken from the chain, and its complement
                    let step = if thorough { 16 } else { 32 };
                    for woff in (0..chain.len()).step_by(step) {
                        for boff in (0..b).step_by(step) {
                            let wl = std::cmp::min(step, std::cmp::min(chain.len() - woff, b - boff));
                            let mut blk = rng.bytes(b);
                            blk[boff..boff + wl].copy_from_slice(&chain[woff..woff + wl]);
                            variants.push(blk);
                        }
                    }
                    let mut whole: Vec<u8> = chain.iter().cycle().take(b).cloned().collect();
                    variants.push(whole.clone());
                    for x in whole.iter_mut() {
                        *x = !*x;
                    }
                    variants.push(whole);
                    for (vi, blk) in variants.iter().enumerate() {
                        if !thorough && family != "blake" && (vi + pi + ai + seed as usize) % 2 == 1 {
                            continue;
                        }
                        let mut m = prefix.clone();
                        m.extend_from_slice(blk);
                        if vi % 2 == 0 {
                            m.extend_from_slice(&blk[..7]);
                        }
                        let n = if family == "skein" { nfix } else { 0 };
                        digest_event_split(out, alg, n, &m, "echo", cfg, if vi % 4 == 3 { *plen + 1 } else { 0 });
                    }
                }
            }
        }
        // longer random messages
        let nlong = if thorough { 6 } else { 2 };
        for k in 0..nlong {
            let l = 3 * b + rng.below((if thorough { 12 } else { 4 }) * b as u64) as usize;
            let n = ns[k % ns.len()];
            let m = rng.bytes(l);
            let split = if k % 2 == 1 { 0x4000_0000 | rng.below(0x3_ffff) as usize } else { 0 };
            digest_event_split(out, alg, n, &m, "long", cfg, split);
        }
    }
}

// ------------------------------------------------------------------------------------------------
// histories over several live instances (C08, C18)

pub struct Slot {
    pub h: Box<dyn Hx>,
    pub alg: String,
    pub n: usize,
    pub msg: Vec<u8>, // bookkeeping for the reference digest only; the specification tracks its own ghost message
}

pub struct HEpisode {
    pub k: usize,
    pub slots: std::collections::BTreeMap<usize, Slot>,
}

fn one_shot(alg: &str, n: usize, msg: &[u8]) -> Vec<u8> {
    let mut h = make_hash(alg, n);
    h.upd(msg);
    h.fin()
}

impl HEpisode {
    pub fn start(out: &mut dyn std::io::Write, alg: &str, n: usize, tag: &str) -> HEpisode {
        let mut e = HEpisode { k: 0, slots: Default::default() };
        Ev::new(0, "hnew").i("i", 1).s("alg", alg).i("n", out_size(alg, n) as i64).s("tag", tag).s("res", "ok").emit(out);
        e.slots.insert(1, Slot { h: make_hash(alg, n), alg: alg.to_string(), n, msg: vec![] });
        e
    }
    pub fn add(&mut self, out: &mut dyn std::io::Write, id: usize, alg: &str, n: usize) {
        self.k += 1;
        Ev::new(self.k, "hadd").i("i", id as i64).s("alg", alg).i("n", out_size(alg, n) as i64).s("res", "ok").emit(out);
        self.slots.insert(id, Slot { h: make_hash(alg, n), alg: alg.to_string(), n, msg: vec![] });
    }
    pub fn upd(&mut self, out: &mut dyn std::io::Write, id: usize, data: &[u8]) {
        self.k += 1;
        let s = self.slots.get_mut(&id).expect("slot");
        let r = guarded(|| s.h.upd(data));
        s.msg.extend_from_slice(data);
        let res = match r {
            Ok(()) => "ok".to_string(),
            Err(p) => format!("panic:{}", sanitize(&p)),
        };
        Ev::new(self.k, "upd").i("i", id as i64).bytes("data", data).s("res", &res).emit(out);
    }
    pub fn clone_to(&mut self, out: &mut dyn std::io::Write, src: usize, dst: usize) {
        self.k += 1;
        if self.slots.contains_key(&dst) && dst != src {
            // destination alive: Clone::clone_from reuses it
            let mut d = self.slots.remove(&dst).unwrap();
            let s = self.slots.get(&src).expect("slot");
            d.h.cl_from(&*s.h);
            d.msg = s.msg.clone();
            self.slots.insert(dst, d);
        } else {
            let s = self.slots.get(&src).expect("slot");
            let c = Slot { h: s.h.cl(), alg: s.alg.clone(), n: s.n, msg: s.msg.clone() };
            self.slots.insert(dst, c);
        }
        Ev::new(self.k, "clone").i("i", src as i64).i("j", dst as i64).s("res", "ok").emit(out);
    }
    pub fn reset(&mut self, out: &mut dyn std::io::Write, id: usize) {
        self.k += 1;
        let s = self.slots.get_mut(&id).expect("slot");
        let r = guarded(|| s.h.rst());
        s.msg.clear();
        let res = match r {
            Ok(()) => "ok".to_string(),
            Err(p) => format!("panic:{}", sanitize(&p)),
        };
        Ev::new(self.k, "reset").i("i", id as i64).s("res", &res).emit(out);
    }
    fn reference(&mut self, out: &mut dyn std::io::Write, id: usize) {
        self.k += 1;
        let s = self.slots.get(&id).expect("slot");
        let o = guarded(|| one_shot(&s.alg, s.n, &s.msg)).unwrap_or_default();
        Ev::new(self.k, "ref").s("alg", &s.alg).i("n", out_size(&s.alg, s.n) as i64).bytes("msg", &s.msg).bytes("out", &o).s("res", "ok").emit(out);
    }
    pub fn finreset(&mut self, out: &mut dyn std::io::Write, id: usize) {
        self.reference(out, id);
        self.k += 1;
        let s = self.slots.get_mut(&id).expect("slot");
        let how = self.k / 2 + id;
        let r = guarded(|| s.h.fin_reset_how(how));
        s.msg.clear();
        let (res, o) = match r {
            Ok(o) => ("ok".to_string(), o),
            Err(p) => (format!("panic:{}", sanitize(&p)), vec![]),
        };
        Ev::new(self.k, "finreset").i("i", id as i64).i("how", (how % 4) as i64).bytes("out", &o).s("res", &res).emit(out);
    }
    pub fn fin(&mut self, out: &mut dyn std::io::Write, id: usize) {
        self.reference(out, id);
        self.k += 1;
        let s = self.slots.remove(&id).expect("slot");
        let h = s.h;
        let how = self.k / 2 + id;
        let r = guarded(move || h.fin_how(how));
        let (res, o) = match r {
            Ok(o) => ("ok".to_string(), o),
            Err(p) => (format!("panic:{}", sanitize(&p)), vec![]),
        };
        Ev::new(self.k, "fin").i("i", id as i64).i("how", (how % 3) as i64).bytes("out", &o).s("res", &res).emit(out);
    }
}

pub const C08_ALGS: [(&str, usize); 15] = [
    ("Blake224", 0), ("Blake256", 0), ("Blake384", 0), ("Blake512", 0), ("Groestl224", 0), ("Groestl256", 0), ("Groestl384", 0), ("Groestl512", 0),
    ("Jh224", 0), ("Jh256", 0), ("Jh384", 0), ("Jh512", 0), ("Skein256", 32), ("Skein512", 64), ("Skein1024", 128),
];

/// Script runner (spec -> impl): lines generated from TLC's state graph of HashReal.
///   new <alg> <n> <tag> | upd <id> <len> | clone <src> <dst> | reset <id> | finreset <id> | fin <id>
pub fn run_hash_script(out: &mut dyn std::io::Write, path: &str, seed: u64) {
    let text = std::fs::read_to_string(path).expect("script");
    let mut rng = Rng::new(seed ^ 0x5c819);
    let mut ep: Option<HEpisode> = None;
    for line in text.lines() {
        let f: Vec<&str> = line.split_whitespace().collect();
        if f.is_empty() || f[0].starts_with('#') {
            continue;
        }
        let id = |s: &str| -> usize { s.parse().unwrap() };
        match f[0] {
            "new" => ep = Some(HEpisode::start(out, f[1], id(f[2]), f[3])),
            "upd" => {
                let d = rng.bytes(id(f[2]));
                ep.as_mut().unwrap().upd(out, id(f[1]), &d)
            }
            "clone" => ep.as_mut().unwrap().clone_to(out, id(f[1]), id(f[2])),
            "reset" => ep.as_mut().unwrap().reset(out, id(f[1])),
            "finreset" => ep.as_mut().unwrap().finreset(out, id(f[1])),
            "fin" => ep.as_mut().unwrap().fin(out, id(f[1])),
            _ => panic!("harness: script line {}", line),
        }
    }
}

/// Random histories over up to 4 live instances of one type (impl -> spec), all 15 types.
pub fn drive_hash_histories(out: &mut dyn std::io::Write, seed: u64, thorough: bool) {
    let mut rng = Rng::new(seed ^ 0xc08);
    let reps = if thorough { 12 } else { 2 };
    // random histories also run Skein with output lengths below / above the state size (several output blocks)
    let extra: [(&str, usize); 5] = [("Skein256", 64), ("Skein512", 24), ("Skein1024", 200), ("Skein512", 129), ("Skein256", 7)];
    for &(alg, n) in C08_ALGS.iter().chain(extra.iter()) {
        let b = block_size(alg);
        let lens = [0usize, 1, 2, b - 1, b, b + 1, 2 * b - 1, 2 * b, 2 * b + 1, 3 * b + 5, b / 2, 7];
        for _ in 0..reps {
            let mut ep = HEpisode::start(out, alg, n, "rand");
            let steps = if thorough { 40 } else { 22 };
            for _ in 0..steps {
                let ids: Vec<usize> = ep.slots.keys().cloned().collect();
                if ids.is_empty() {
                    break;
                }
                let id = *rng.pick(&ids);
                match rng.below(12) {
                    0 => {
                        if ids.len() < 4 && rng.below(3) != 0 {
                            let dst = (1..=4).find(|d| !ids.contains(d)).unwrap();
                            ep.clone_to(out, id, dst);
                        } else if ids.len() > 1 {
                            let dst = *ids.iter().find(|d| **d != id).unwrap();
                            ep.clone_to(out, id, dst);
                        }
                    }
                    1 => ep.reset(out, id),
                    2 => ep.finreset(out, id),
                    3 => {
                        if ids.len() > 1 {
                            ep.fin(out, id)
                        }
                    }
                    _ => {
                        let l = *rng.pick(&lens);
                        let d = rng.bytes(l);
                        ep.upd(out, id, &d);
                    }
                }
            }
            let ids: Vec<usize> = ep.slots.keys().cloned().collect();
            for id in ids {
                ep.fin(out, id);
            }
        }
        // large pieces (an implementation may treat long inputs differently): a short piece that leaves the buffer partly
        // filled, then one piece of >= 4096 bytes that ends exactly on / just before / just after a block boundary
        let kb = (4096 / b + 1 + (seed as usize % 5)) * b;
        let bigs: Vec<(usize, usize)> = [1usize, b / 2, b - 1]
            .iter()
            .flat_map(|&p| vec![(p, kb - p), (p, kb - p + 1), (p, kb - p - 1), (p, kb)])
            .chain(if thorough { vec![(3usize, 65536 - 3), (b - 1, 65536 + 1), (0, kb), (0, 65536)] } else { vec![(b / 2 + 1, 16 * kb - b / 2 - 1)] })
            .collect();
        for (bi, &(p, big)) in bigs.iter().enumerate() {
            let mut ep = HEpisode::start(out, alg, n, "bigpiece");
            let d = rng.bytes(p);
            ep.upd(out, 1, &d);
            let d = rng.bytes(big);
            ep.upd(out, 1, &d);
            match bi % 3 {
                0 => ep.finreset(out, 1),
                1 => {
                    ep.clone_to(out, 1, 2);
                    ep.fin(out, 2);
                    ep.finreset(out, 1);
                }
                _ => {
                    let d = rng.bytes(b + 1);
                    ep.upd(out, 1, &d);
                    ep.finreset(out, 1);
                }
            }
            ep.upd(out, 1, &[7u8; 3]);
            ep.fin(out, 1);
        }
    }
}
