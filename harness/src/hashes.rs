//! The 15 hash types behind one object-safe facade, and the drivers for C04-C08.
use crate::util::*;
use digest::generic_array::typenum::*;
use digest::Digest;

pub trait Hx {
    fn upd(&mut self, d: &[u8]);
    fn fin_reset(&mut self) -> Vec<u8>;
    fn fin(self: Box<Self>) -> Vec<u8>;
    fn rst(&mut self);
    fn cl(&self) -> Box<dyn Hx>;
    fn chain_fin(self: Box<Self>, d: &[u8]) -> Vec<u8>;
}
impl<D: Digest + Clone + 'static> Hx for D {
    fn upd(&mut self, d: &[u8]) {
        Digest::update(self, d)
    }
    fn fin_reset(&mut self) -> Vec<u8> {
        Digest::finalize_reset(self).to_vec()
    }
    fn fin(self: Box<Self>) -> Vec<u8> {
        Digest::finalize(*self).to_vec()
    }
    fn rst(&mut self) {
        Digest::reset(self)
    }
    fn cl(&self) -> Box<dyn Hx> {
        Box::new(self.clone())
    }
    fn chain_fin(self: Box<Self>, d: &[u8]) -> Vec<u8> {
        Digest::finalize(Digest::chain(*self, d)).to_vec()
    }
}

pub const FIXED_ALGS: [&str; 12] = [
    "Blake224", "Blake256", "Blake384", "Blake512", "Groestl224", "Groestl256", "Groestl384", "Groestl512", "Jh224", "Jh256", "Jh384", "Jh512",
];
pub const SKEIN_N: [usize; 25] = [1, 2, 3, 7, 8, 9, 16, 20, 28, 31, 32, 33, 48, 63, 64, 65, 96, 127, 128, 129, 160, 200, 256, 257, 300];

macro_rules! skein_arms {
    ($ty:ident, $n:expr, $( $num:expr => $U:ty ),* ) => {
        match $n {
            $( $num => Some(Box::new(skein_hash::$ty::<$U>::default()) as Box<dyn Hx>), )*
            _ => None,
        }
    };
}
macro_rules! skein_make {
    ($ty:ident, $n:expr) => {
        skein_arms!($ty, $n, 1 => U1, 2 => U2, 3 => U3, 7 => U7, 8 => U8, 9 => U9, 16 => U16, 20 => U20, 28 => U28, 31 => U31, 32 => U32, 33 => U33,
            48 => U48, 63 => U63, 64 => U64, 65 => U65, 96 => U96, 127 => U127, 128 => U128, 129 => U129, 160 => U160, 200 => U200, 256 => U256,
            257 => U257, 300 => U300)
    };
}

/// alg: one of FIXED_ALGS, or "Skein256" / "Skein512" / "Skein1024" with output length n (bytes)
pub fn make_hash(alg: &str, n: usize) -> Box<dyn Hx> {
    let h: Option<Box<dyn Hx>> = match alg {
        "Blake224" => Some(Box::new(blake_hash::Blake224::default())),
        "Blake256" => Some(Box::new(blake_hash::Blake256::default())),
        "Blake384" => Some(Box::new(blake_hash::Blake384::default())),
        "Blake512" => Some(Box::new(blake_hash::Blake512::default())),
        "Groestl224" => Some(Box::new(groestl_aesni::Groestl224::default())),
        "Groestl256" => Some(Box::new(groestl_aesni::Groestl256::default())),
        "Groestl384" => Some(Box::new(groestl_aesni::Groestl384::default())),
        "Groestl512" => Some(Box::new(groestl_aesni::Groestl512::default())),
        "Jh224" => Some(Box::new(jh_x86_64::Jh224::default())),
        "Jh256" => Some(Box::new(jh_x86_64::Jh256::default())),
        "Jh384" => Some(Box::new(jh_x86_64::Jh384::default())),
        "Jh512" => Some(Box::new(jh_x86_64::Jh512::default())),
        "Skein256" => skein_make!(Skein256, n),
        "Skein512" => skein_make!(Skein512, n),
        "Skein1024" => skein_make!(Skein1024, n),
        _ => None,
    };
    h.unwrap_or_else(|| panic!("harness: no hash {} / {}", alg, n))
}

pub fn block_size(alg: &str) -> usize {
    match alg {
        "Blake224" | "Blake256" | "Groestl224" | "Groestl256" | "Skein512" => 64,
        "Blake384" | "Blake512" | "Groestl384" | "Groestl512" | "Skein1024" => 128,
        "Skein256" => 32,
        _ => 64, // JH
    }
}
pub fn out_size(alg: &str, n: usize) -> usize {
    match alg {
        "Blake224" | "Groestl224" | "Jh224" => 28,
        "Blake256" | "Groestl256" | "Jh256" => 32,
        "Blake384" | "Groestl384" | "Jh384" => 48,
        "Blake512" | "Groestl512" | "Jh512" => 64,
        _ => n,
    }
}

/// message content: every byte distinguishable by position (mod 251), or random, or constant
pub fn message(rng: &mut Rng, len: usize, kind: u64) -> Vec<u8> {
    match kind % 4 {
        0 => (0..len).map(|i| ((i * 7 + 3) % 251) as u8).collect(),
        1 => vec![0u8; len],
        2 => vec![0xffu8; len],
        _ => rng.bytes(len),
    }
}

pub fn digest_event(out: &mut dyn std::io::Write, alg: &str, n: usize, msg: &[u8], tag: &str, cfg: &str) {
    let r = guarded(|| {
        let mut h = make_hash(alg, n);
        h.upd(msg);
        h.fin()
    });
    let (res, o) = match r {
        Ok(o) => ("ok".to_string(), o),
        Err(p) => (format!("panic:{}", sanitize(&p)), vec![]),
    };
    Ev::new(0, "digest").s("alg", alg).i("n", out_size(alg, n) as i64).s("tag", tag).s("cfg", cfg).bytes("msg", msg).bytes("out", &o).s("res", &res).emit(out);
}

/// C04 / C06 / C07 (fixed-output families) and C05 (Skein): one-shot digests over a length sweep.
pub fn drive_digests(out: &mut dyn std::io::Write, family: &str, seed: u64, thorough: bool, cfg: &str) {
    let mut rng = Rng::new(seed ^ 0xd16);
    let algs: Vec<&str> = match family {
        "blake" => vec!["Blake224", "Blake256", "Blake384", "Blake512"],
        "groestl" => vec!["Groestl224", "Groestl256", "Groestl384", "Groestl512"],
        "jh" => vec!["Jh224", "Jh256", "Jh384", "Jh512"],
        "skein" => vec!["Skein256", "Skein512", "Skein1024"],
        _ => panic!("harness: family"),
    };
    for (ai, alg) in algs.iter().enumerate() {
        let b = block_size(alg);
        let ns: Vec<usize> = if family == "skein" {
            if thorough { SKEIN_N.to_vec() } else { SKEIN_N.iter().cloned().filter(|n| [1usize, 7, 8, 31, 32, 33, 64, 65, 128, 129, 200, 300].contains(n)).collect() }
        } else {
            vec![0]
        };
        // every length 0..2B+17 (thorough) / all boundary lengths plus a rotating residue subset (quick)
        let maxlen = 2 * b + 17;
        let mut lens: Vec<usize> = vec![];
        for l in 0..=maxlen {
            let boundary = [0usize, 1, 2].contains(&l)
                || (l + 20) % b <= 22 // the one-vs-two final block boundaries (footers of 9, 17 bytes; groestl 8+1; jh) and block multiples
                || l % b == b / 2;
            if thorough || boundary || (l + ai + seed as usize) % 7 == 0 {
                lens.push(l);
            }
        }
        for (li, &l) in lens.iter().enumerate() {
            let n = ns[(li + ai) % ns.len()];
            let m = message(&mut rng, l, (li + ai) as u64);
            digest_event(out, alg, n, &m, "sweep", cfg);
        }
        if family == "skein" {
            // every output length against a few message shapes (empty, one byte, exactly one block, block + 1)
            for &n in ns.iter() {
                for l in [0usize, 1, b, b + 1] {
                    let m = message(&mut rng, l, n as u64);
                    digest_event(out, alg, n, &m, "outlen", cfg);
                }
            }
        }
        // longer random messages
        let nlong = if thorough { 6 } else { 2 };
        for k in 0..nlong {
            let l = 3 * b + rng.below((if thorough { 12 } else { 4 }) * b as u64) as usize;
            let n = ns[k % ns.len()];
            let m = rng.bytes(l);
            digest_event(out, alg, n, &m, "long", cfg);
        }
    }
}
