//! C16: byte-slice APIs at every alignment and abutting unmapped pages. Each group runs in a child process so that a
//! SIGSEGV/SIGBUS is an observed outcome; the child flushes a `call` record before every call and a `ret` record after it.
use crate::chacha;
use crate::hashes;
use crate::tf;
use crate::util::*;
use std::io::Write;

const PAGE: usize = 4096;

/// 4 pages: [PROT_NONE][rw][rw][PROT_NONE]
pub struct Guarded {
    base: *mut u8,
}
impl Guarded {
    pub fn new() -> Guarded {
        unsafe {
            let p = libc::mmap(std::ptr::null_mut(), 4 * PAGE, libc::PROT_READ | libc::PROT_WRITE, libc::MAP_PRIVATE | libc::MAP_ANONYMOUS, -1, 0);
            assert!(p != libc::MAP_FAILED, "mmap");
            let base = p as *mut u8;
            assert_eq!(libc::mprotect(base as *mut _, PAGE, libc::PROT_NONE), 0);
            assert_eq!(libc::mprotect(base.add(3 * PAGE) as *mut _, PAGE, libc::PROT_NONE), 0);
            std::ptr::write_bytes(base.add(PAGE), 0xc3, 2 * PAGE);
            Guarded { base }
        }
    }
    /// the 2 writable pages
    pub fn rw(&mut self) -> &mut [u8] {
        unsafe { std::slice::from_raw_parts_mut(self.base.add(PAGE), 2 * PAGE) }
    }
    /// slice of `len` bytes placed: "end" = last byte is the last mapped byte; "start" = first byte is the first mapped byte;
    /// "mid" = interior at offset 1024 + align (canaries around it)
    pub fn place(&mut self, place: &str, len: usize, align: usize) -> (usize, &mut [u8]) {
        let off = match place {
            "end" => 2 * PAGE - len,
            "start" => 0,
            // the slice ends `align` bytes before the last mapped byte (an over-read of a few bytes past an UNALIGNED slice)
            "endm" => 2 * PAGE - len - align,
            _ => 1024 + align,
        };
        let rw = self.rw();
        (off, &mut rw[off..off + len])
    }
    pub fn canary_ok(&mut self, off: usize, len: usize) -> bool {
        let rw = self.rw();
        rw[..off].iter().all(|&x| x == 0xc3) && rw[off + len..].iter().all(|&x| x == 0xc3)
    }
    pub fn refill(&mut self) {
        for b in self.rw().iter_mut() {
            *b = 0xc3;
        }
    }
}
impl Drop for Guarded {
    fn drop(&mut self) {
        unsafe {
            libc::munmap(self.base as *mut _, 4 * PAGE);
        }
    }
}

struct Rec<'a> {
    out: &'a mut dyn std::io::Write,
    k: usize,
    group: String,
}
impl<'a> Rec<'a> {
    fn call(&mut self, api: &str, alg: &str, place: &str, len: usize, align: usize) {
        self.k += 1;
        Ev::new(self.k, "call").s("group", &self.group).s("api", api).s("alg", alg).s("place", place).i("len", len as i64).i("align", align as i64).emit(self.out);
        self.out.flush().unwrap();
    }
    fn ret(&mut self, outb: &[u8], refb: &[u8], canary: bool, res: &str) {
        self.k += 1;
        Ev::new(self.k, "ret").bytes("out", outb).bytes("ref", refb).b("canary", canary).s("res", res).emit(self.out);
        self.out.flush().unwrap();
    }
}

fn places(len: usize, thorough: bool) -> Vec<(&'static str, usize)> {
    let mut v = vec![("end", 0usize), ("start", 0)];
    for k in if thorough { (1..16).collect::<Vec<usize>>() } else { vec![1, 4, 7] } {
        v.push(("endm", k));
    }
    let aligns: Vec<usize> = if thorough { (0..64).collect() } else { vec![(len * 7 + 1) % 64, (len * 3 + 33) % 64] };
    for a in aligns {
        v.push(("mid", a));
    }
    v
}

fn lens(thorough: bool) -> Vec<usize> {
    let mut v: Vec<usize> = if thorough { (0..=131).collect() } else { (0..=131).filter(|l| l % 5 == 0 || [1usize, 15, 16, 17, 31, 32, 33, 63, 64, 65, 127, 128, 129].contains(l)).collect() };
    v.extend_from_slice(&[191, 192, 255, 256, 257, 511, 513]);
    v
}

/// child: run one group, writing call/ret records
pub fn child(out: &mut dyn std::io::Write, group: &str, seed: u64, thorough: bool) {
    let mut rng = Rng::new(seed ^ 0xc16);
    let mut g = Guarded::new();
    let mut r = Rec { out, k: 0, group: group.to_string() };
    Ev::new(0, "group").s("group", group).emit(r.out);
    let parts: Vec<&str> = group.split(':').collect();
    match parts[0] {
        "ks" => {
            let variant = parts[1];
            let key = rng.bytes(32);
            let nonce = rng.bytes(chacha::nonce_len(variant));
            for len in lens(thorough) {
                let data = rng.bytes(len);
                let mut reference = data.clone();
                chacha::make(variant, &key, &nonce).apply(&mut reference).unwrap();
                for (place, align) in places(len, thorough) {
                    g.refill();
                    r.call("apply_keystream", variant, place, len, align);
                    let (off, s) = g.place(place, len, align);
                    s.copy_from_slice(&data);
                    let res = guarded(|| chacha::make(variant, &key, &nonce).apply(s));
                    let o = s.to_vec();
                    let can = g.canary_ok(off, len);
                    r.ret(&o, &reference, can, if matches!(res, Ok(Ok(()))) { "ok" } else { "fail" });
                }
            }
        }
        "hash" => {
            let alg = parts[1];
            let n = if alg.starts_with("Skein") { hashes::block_size(alg) } else { 0 };
            let b = hashes::block_size(alg);
            for len in lens(thorough) {
                let data = rng.bytes(len);
                // the guarded slice is fed after a prefix of `pre` bytes from an ordinary buffer (0 = the slice is the whole message):
                // partial-block bookkeeping must not make the second call look outside its own slice
                let pres: Vec<usize> = if thorough { vec![0, 1, 13, b / 2, b - 1] } else { vec![0, [1usize, 13, b - 1][len % 3]] };
                for pre in pres {
                    let prefix = rng.bytes(pre);
                    let reference = { let mut h = hashes::make_hash(alg, n); h.upd(&prefix); h.upd(&data); h.fin() };
                    for (place, align) in places(len, thorough && pre == 0) {
                        g.refill();
                        r.call(if pre == 0 { "update" } else { "update_after_prefix" }, alg, place, len, align + 1000 * pre);
                        let (off, s) = g.place(place, len, align);
                        s.copy_from_slice(&data);
                        let res = guarded(|| { let mut h = hashes::make_hash(alg, n); h.upd(&prefix); h.upd(s); h.fin() });
                        let same_input = &s[..] == &data[..];
                        let can = g.canary_ok(off, len) && same_input;
                        match res {
                            Ok(o) => r.ret(&o, &reference, can, "ok"),
                            Err(_) => r.ret(&[], &reference, can, "panic"),
                        }
                    }
                }
            }
        }
        "finout" => {
            // digest OUTPUT buffers in guarded memory: finalize_into / finalize_into_reset / finalize_into_dirty must write
            // exactly the output size, wherever the slice lies
            let mut algs: Vec<(&str, usize)> = hashes::C08_ALGS.to_vec();
            algs.extend_from_slice(&[("Skein256", 7), ("Skein512", 24), ("Skein1024", 129), ("Skein256", 65), ("Skein512", 200)]);
            for (ai, &(alg, n)) in algs.iter().enumerate() {
                let olen = hashes::out_size(alg, n);
                for (mi, mlen) in [0usize, 1, hashes::block_size(alg) + 3].iter().enumerate() {
                    let msg = rng.bytes(*mlen);
                    let reference = { let mut h = hashes::make_hash(alg, n); h.upd(&msg); h.fin() };
                    for (place, align) in places(olen + ai + mi, thorough) {
                        for how in 0..3usize {
                            g.refill();
                            r.call(["finalize_into", "finalize_into_reset", "finalize_into_dirty"][how], alg, place, olen, align);
                            let (off, s) = g.place(place, olen, align);
                            let res = guarded(|| { let mut h = hashes::make_hash(alg, n); h.upd(&msg); h.fin_into_slice(s, how) });
                            let o = s.to_vec();
                            let can = g.canary_ok(off, olen);
                            r.ret(&o, &reference, can, if res.is_ok() { "ok" } else { "panic" });
                        }
                    }
                }
            }
        }
        "tf" => {
            let size: usize = parts[1].parse().unwrap();
            for rep in 0..(if thorough { 8 } else { 3 }) {
                let key = rng.bytes(size);
                let x = rng.bytes(size);
                let (t0, t1) = (rng.next(), rng.next());
                for dec in [false, true] {
                    let reference = tf::tf_call(size, &key, t0, t1, false, &x, dec);
                    for (place, align) in places(size + rep, thorough) {
                        g.refill();
                        r.call(if dec { "decrypt_block" } else { "encrypt_block" }, &format!("Threefish{}", size * 8), place, size, align);
                        // key and block both placed in guarded memory: key at the far end, block at `place`
                        let (off, s) = g.place(place, size, align);
                        s.copy_from_slice(&x);
                        let res = guarded(|| tf::tf_call_inplace(size, &key, t0, t1, s, dec));
                        let o = s.to_vec();
                        let can = g.canary_ok(off, size);
                        r.ret(&o, &reference, can, if res.is_ok() { "ok" } else { "panic" });
                    }
                }
            }
        }
        "guts" => {
            for rep in 0..(if thorough { 6 } else { 2 }) {
                let key = rng.bytes(32);
                let nonce = rng.bytes(8);
                let ctr = if rep % 2 == 0 { rng.next() } else { 0xffff_fffe };
                for wide in [false, true] {
                    let n = if wide { 256 } else { 64 };
                    let reference = {
                        let mut c = chacha::guts_new(&key, &nonce);
                        c.set_stream_param(0, ctr);
                        let mut o = vec![0u8; n];
                        if wide { c.refill4(7, (&mut o[..]).try_into().unwrap()) } else { c.refill(7, (&mut o[..]).try_into().unwrap()) }
                        o
                    };
                    for (place, align) in places(n + rep, thorough) {
                        g.refill();
                        r.call(if wide { "refill4" } else { "refill" }, "ChaCha", place, n, align);
                        let (off, s) = g.place(place, n, align);
                        let res = guarded(|| {
                            let mut c = chacha::guts_new(&key, &nonce);
                            c.set_stream_param(0, ctr);
                            if wide { c.refill4(7, (&mut s[..]).try_into().unwrap()) } else { c.refill(7, (&mut s[..]).try_into().unwrap()) }
                        });
                        let o = s.to_vec();
                        let can = g.canary_ok(off, n);
                        r.ret(&o, &reference, can, if res.is_ok() { "ok" } else { "panic" });
                    }
                }
            }
        }
        "ctor" => {
            // constructor arguments are byte slices too: key and nonce each live in their own guarded region, first byte on
            // the first mapped byte / last byte on the last mapped byte / interior at every alignment class
            let mut g2 = Guarded::new();
            let mut all: Vec<(String, usize, usize)> = chacha::VARIANTS.iter().map(|v| (format!("ks:{}", v), 32usize, chacha::nonce_len(v))).collect();
            all.push(("guts:8".to_string(), 32, 8));
            all.push(("guts:12".to_string(), 32, 12));
            for s in [32usize, 64, 128] {
                all.push((format!("tf:{}", s), s, 0));
            }
            for (what, klen, nlen) in all {
                let key = rng.bytes(klen);
                let nonce = rng.bytes(nlen);
                let x = rng.bytes(klen.max(64));
                let run = |k: &[u8], n: &[u8], ctor: usize| -> Vec<u8> {
                    if let Some(v) = what.strip_prefix("ks:") {
                        let mut d = vec![0u8; 200];
                        chacha::make_ctor(v, k, n, ctor).apply(&mut d).unwrap();
                        d
                    } else if what.starts_with("guts:") {
                        let mut o = [0u8; 64];
                        chacha::guts_new(k, n).refill(10, &mut o);
                        o.to_vec()
                    } else {
                        tf::tf_call(klen, k, 3, 4, ctor % 2 == 0, &x[..klen], false)
                    }
                };
                let reference0 = run(&key, &nonce, 0);
                let reference1 = run(&key, &nonce, 1);
                let mut pl: Vec<(&str, usize)> = vec![("start", 0), ("end", 0), ("endm", 1), ("endm", 3), ("endm", 4), ("endm", 7)];
                for a in if thorough { (0..32).collect::<Vec<usize>>() } else { vec![1, 4, 8, 12, 17] } {
                    pl.push(("mid", a));
                }
                for (ci, (place, align)) in pl.iter().enumerate() {
                    g.refill();
                    g2.refill();
                    r.call("new", &what, place, klen + nlen, *align);
                    let (koff, ks) = g.place(place, klen, *align);
                    ks.copy_from_slice(&key);
                    // key and nonce at opposite ends, so that both "before the start" and "past the end" are unmapped for each
                    let nplace = match *place { "start" => "end", "end" | "endm" => "start", p => p };
                    let (noff, ns) = g2.place(nplace, nlen, *align);
                    ns.copy_from_slice(&nonce);
                    let (res, same) = {
                        let (ksl, nsl): (&[u8], &[u8]) = (ks, ns);
                        let res = guarded(|| run(ksl, nsl, ci));
                        (res, ksl == &key[..] && nsl == &nonce[..])
                    };
                    let can = g.canary_ok(koff, klen) && g2.canary_ok(noff, nlen) && same;
                    let reference = if ci % 2 == 0 { &reference0 } else { &reference1 };
                    match res {
                        Ok(o) => r.ret(&o, reference, can, "ok"),
                        Err(_) => r.ret(&[], reference, can, "panic"),
                    }
                }
            }
        }
        "selftest" => {
            // demonstration that the guard pages bite: a deliberate one-byte over-read at the end of mapped memory
            r.call("overread", "selftest", "end", 16, 0);
            let (_off, sl) = g.place("end", 16, 0);
            let p = sl.as_ptr();
            let v = unsafe { std::ptr::read_volatile(p.add(16)) };
            r.ret(&[v], &[v], true, "ok");
        }
        "vec" => crate::simd::align_vec_io(&mut g, &mut r_call_adapter(&mut r), &mut rng, thorough),
        _ => panic!("harness: c16 group {}", group),
    }
    Ev::new(r.k + 1, "done").emit(r.out);
    r.out.flush().unwrap();
}

/// adapter handed to simd.rs (keeps Rec private)
pub struct VecIo<'a, 'b> {
    r: &'a mut Rec<'b>,
}
fn r_call_adapter<'a, 'b>(r: &'a mut Rec<'b>) -> VecIo<'a, 'b> {
    VecIo { r }
}
impl<'a, 'b> VecIo<'a, 'b> {
    pub fn call(&mut self, api: &str, alg: &str, place: &str, len: usize, align: usize) {
        self.r.call(api, alg, place, len, align)
    }
    pub fn ret(&mut self, outb: &[u8], refb: &[u8], canary: bool, res: &str) {
        self.r.ret(outb, refb, canary, res)
    }
}

pub fn groups() -> Vec<String> {
    let mut v = vec![];
    for x in chacha::VARIANTS.iter() {
        v.push(format!("ks:{}", x));
    }
    for (alg, _) in hashes::C08_ALGS.iter() {
        v.push(format!("hash:{}", alg));
    }
    for s in [32, 64, 128] {
        v.push(format!("tf:{}", s));
    }
    v.push("guts".to_string());
    v.push("ctor".to_string());
    v.push("finout".to_string());
    v.push("vec".to_string());
    v
}
pub fn all_groups(only: Option<&str>) -> Vec<String> {
    if only == Some("selftest") {
        return vec!["selftest".to_string()];
    }
    groups()
}

/// parent: one child per group; a child that dies by a signal yields a `crash` record
pub fn parent(out: &mut dyn std::io::Write, seed: u64, thorough: bool, force: u8, only: Option<&str>) {
    let exe = std::env::current_exe().unwrap();
    for g in all_groups(only) {
        if let Some(o) = only {
            if !g.starts_with(o) {
                continue;
            }
        }
        let mut cmd = std::process::Command::new(&exe);
        cmd.arg("c16-child").arg("--group").arg(&g).arg("--seed").arg(seed.to_string()).arg("--tier").arg(if thorough { "thorough" } else { "quick" });
        if force != 0 {
            cmd.arg("--force").arg(force.to_string());
        }
        let o = cmd.output().expect("spawn child");
        out.write_all(&o.stdout).unwrap();
        if !o.status.success() {
            use std::os::unix::process::ExitStatusExt;
            let sig = o.status.signal().unwrap_or(0);
            let nlines = o.stdout.iter().filter(|&&b| b == b'\n').count();
            Ev::new(nlines + 1, "crash").s("group", &g).i("signal", sig as i64).i("code", o.status.code().unwrap_or(-1) as i64).emit(out);
        }
    }
}
