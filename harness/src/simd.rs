//! C12 / C13 (and part of C03): every operation the `Machine` trait bounds require, for all ten
//! vector types, on whichever backend the dispatch macro selects (forced through hook H1, the
//! portable backend in `nosimd` builds, compile-time selection in no-std builds).
//!
//! A vector value is identified with its 16/32/64 bytes in little-endian storage order
//! (`[u32; 4]` <-> `vec128_storage`, `new128`/`split128` for the wider ones).  One event per
//! operation: {ty, op, a, b, i, out}.  Panics are recorded as outcomes: the whole run is wrapped
//! in catch_unwind *outside* the dispatch wrapper (so the production codegen path is kept) and
//! restarted after a panic, skipping what was already recorded.
use crate::util::*;
use ppv_lite86::*;
use ppv_lite86::{dispatch, dispatch_light128, dispatch_light256};
use std::panic::{catch_unwind, AssertUnwindSafe};

pub struct Ctx<'a> {
    out: &'a mut dyn std::io::Write,
    done: usize,
    cursor: usize,
    cur: Option<(String, String, Vec<u8>, Vec<u8>, i64)>,
    pub mach: String,
    pub ops128: Vec<(Vec<u8>, Vec<u8>)>,
    pub ops256: Vec<(Vec<u8>, Vec<u8>)>,
    pub ops512: Vec<(Vec<u8>, Vec<u8>)>,
    pub cfg: String,
}

impl<'a> Ctx<'a> {
    fn begin(&mut self, ty: &str, op: &str, a: &[u8], b: &[u8], i: i64) -> bool {
        let idx = self.cursor;
        self.cursor += 1;
        if idx < self.done {
            return false;
        }
        self.cur = Some((ty.to_string(), op.to_string(), a.to_vec(), b.to_vec(), i));
        true
    }
    fn emit(&mut self, outb: &[u8], res: &str) {
        let (ty, op, a, b, i) = self.cur.take().unwrap();
        Ev::new(0, "op")
            .s("ty", &ty)
            .s("op", &op)
            .s("mach", &self.mach)
            .s("cfg", &self.cfg)
            .bytes("a", &a)
            .bytes("b", &b)
            .i("i", i)
            .bytes("out", outb)
            .s("res", res)
            .emit(self.out);
        self.done += 1;
    }
    fn end(&mut self, outb: &[u8]) {
        self.emit(outb, "ok");
    }
}

fn words4(b: &[u8]) -> [u32; 4] {
    let mut w = [0u32; 4];
    for i in 0..4 {
        w[i] = u32::from_le_bytes([b[4 * i], b[4 * i + 1], b[4 * i + 2], b[4 * i + 3]]);
    }
    w
}
fn s128(b: &[u8]) -> vec128_storage {
    words4(b).into()
}
fn b128(s: vec128_storage) -> Vec<u8> {
    let w: [u32; 4] = s.into();
    w.iter().flat_map(|x| x.to_le_bytes()).collect()
}
fn s256(b: &[u8]) -> vec256_storage {
    vec256_storage::new128([s128(&b[..16]), s128(&b[16..32])])
}
fn b256(s: vec256_storage) -> Vec<u8> {
    let p = s.split128();
    let mut v = b128(p[0]);
    v.extend(b128(p[1]));
    v
}
fn s512(b: &[u8]) -> vec512_storage {
    vec512_storage::new128([s128(&b[..16]), s128(&b[16..32]), s128(&b[32..48]), s128(&b[48..64])])
}
fn b512(s: vec512_storage) -> Vec<u8> {
    let p = s.split128();
    let mut v = vec![];
    for x in p.iter() {
        v.extend(b128(*x));
    }
    v
}
fn le64(b: &[u8]) -> u64 {
    u64::from_le_bytes([b[0], b[1], b[2], b[3], b[4], b[5], b[6], b[7]])
}
fn le128(b: &[u8]) -> u128 {
    let mut x = [0u8; 16];
    x.copy_from_slice(&b[..16]);
    u128::from_le_bytes(x)
}

// ---- op groups, generic over the vector type V with load/store through its storage type ---------
macro_rules! un {
    ($c:ident, $ty:expr, $ops:expr, $V:ty, $ld:expr, $st:expr, $( $name:expr => $f:expr ),* ) => {
        for (a, _b) in $ops.clone().iter() {
            $( if $c.begin($ty, $name, a, &[], 0) { let v: $V = $ld(a); let r: $V = $f(v); let o = $st(r); $c.end(&o); } )*
        }
    };
}
macro_rules! bin {
    ($c:ident, $ty:expr, $ops:expr, $V:ty, $ld:expr, $st:expr, $( $name:expr => $f:expr ),* ) => {
        for (a, b) in $ops.clone().iter() {
            $( if $c.begin($ty, $name, a, b, 0) { let x: $V = $ld(a); let y: $V = $ld(b); let r: $V = $f(x, y); let o = $st(r); $c.end(&o); } )*
        }
    };
}
macro_rules! bitops0 {
    ($c:ident, $ty:expr, $ops:expr, $V:ty, $ld:expr, $st:expr) => {
        bin!($c, $ty, $ops, $V, $ld, $st,
            "xor" => |x: $V, y: $V| x ^ y, "and" => |x: $V, y: $V| x & y, "or" => |x: $V, y: $V| x | y,
            "andnot" => |x: $V, y: $V| x.andnot(y),
            "xor_assign" => |x: $V, y: $V| { let mut z = x; z ^= y; z });
        un!($c, $ty, $ops, $V, $ld, $st, "not" => |x: $V| !x);
    };
}
macro_rules! rot32 {
    ($c:ident, $ty:expr, $ops:expr, $V:ty, $ld:expr, $st:expr) => {
        un!($c, $ty, $ops, $V, $ld, $st,
            "rotr7" => |x: $V| x.rotate_each_word_right7(), "rotr8" => |x: $V| x.rotate_each_word_right8(),
            "rotr11" => |x: $V| x.rotate_each_word_right11(), "rotr12" => |x: $V| x.rotate_each_word_right12(),
            "rotr16" => |x: $V| x.rotate_each_word_right16(), "rotr20" => |x: $V| x.rotate_each_word_right20(),
            "rotr24" => |x: $V| x.rotate_each_word_right24(), "rotr25" => |x: $V| x.rotate_each_word_right25());
    };
}
macro_rules! rot64 {
    ($c:ident, $ty:expr, $ops:expr, $V:ty, $ld:expr, $st:expr) => {
        un!($c, $ty, $ops, $V, $ld, $st, "rotr32" => |x: $V| x.rotate_each_word_right32());
    };
}
macro_rules! arith {
    ($c:ident, $ty:expr, $ops:expr, $V:ty, $ld:expr, $st:expr) => {
        bin!($c, $ty, $ops, $V, $ld, $st, "add" => |x: $V, y: $V| x + y, "add_assign" => |x: $V, y: $V| { let mut z = x; z += y; z });
        un!($c, $ty, $ops, $V, $ld, $st, "bswap" => |x: $V| x.bswap());
    };
}
macro_rules! swap64ops {
    ($c:ident, $ty:expr, $ops:expr, $V:ty, $ld:expr, $st:expr) => {
        un!($c, $ty, $ops, $V, $ld, $st,
            "swap1" => |x: $V| x.swap1(), "swap2" => |x: $V| x.swap2(), "swap4" => |x: $V| x.swap4(), "swap8" => |x: $V| x.swap8(),
            "swap16" => |x: $V| x.swap16(), "swap32" => |x: $V| x.swap32(), "swap64" => |x: $V| x.swap64());
    };
}
macro_rules! words4ops {
    ($c:ident, $ty:expr, $ops:expr, $V:ty, $ld:expr, $st:expr) => {
        un!($c, $ty, $ops, $V, $ld, $st,
            "shuffle1230" => |x: $V| x.shuffle1230(), "shuffle2301" => |x: $V| x.shuffle2301(), "shuffle3012" => |x: $V| x.shuffle3012());
    };
}
macro_rules! lanewords4ops {
    ($c:ident, $ty:expr, $ops:expr, $V:ty, $ld:expr, $st:expr) => {
        un!($c, $ty, $ops, $V, $ld, $st,
            "lane1230" => |x: $V| x.shuffle_lane_words1230(), "lane2301" => |x: $V| x.shuffle_lane_words2301(),
            "lane3012" => |x: $V| x.shuffle_lane_words3012());
    };
}
/// byte I/O through Machine::read_le / read_be and write_le / write_be, at offsets 0..15 of a larger buffer
macro_rules! storebytes {
    ($c:ident, $m:ident, $ty:expr, $ops:expr, $V:ty, $ld:expr, $st:expr, $n:expr) => {
        for (k, (a, _b)) in $ops.clone().iter().enumerate() {
            let off = k % 16;
            let mut buf = vec![0xeeu8; $n + 32];
            buf[off..off + $n].copy_from_slice(a);
            if $c.begin($ty, "read_le", a, &[], off as i64) { let v: $V = $m.read_le(&buf[off..off + $n]); let o = $st(v); $c.end(&o); }
            if $c.begin($ty, "read_be", a, &[], off as i64) { let v: $V = $m.read_be(&buf[off..off + $n]); let o = $st(v); $c.end(&o); }
            if $c.begin($ty, "write_le", a, &[], off as i64) {
                let v: $V = $ld(a); let mut o = vec![0x11u8; $n + 32]; v.write_le(&mut o[off..off + $n]);
                let clean = o[..off].iter().all(|&x| x == 0x11) && o[off + $n..].iter().all(|&x| x == 0x11);
                let r = if clean { o[off..off + $n].to_vec() } else { vec![] }; $c.end(&r); }
            if $c.begin($ty, "write_be", a, &[], off as i64) {
                let v: $V = $ld(a); let mut o = vec![0x11u8; $n + 32]; v.write_be(&mut o[off..off + $n]);
                let clean = o[..off].iter().all(|&x| x == 0x11) && o[off + $n..].iter().all(|&x| x == 0x11);
                let r = if clean { o[off..off + $n].to_vec() } else { vec![] }; $c.end(&r); }
        }
    };
}

#[inline(always)]
pub fn exercise<M: Machine>(m: M, c: &mut Ctx) {
    c.mach = core::any::type_name::<M>().to_string();
    let o128 = c.ops128.clone();
    let o256 = c.ops256.clone();
    let o512 = c.ops512.clone();
    // ------------------------------------------------------------------ u32x4
    {
        let ld = |b: &Vec<u8>| -> M::u32x4 { m.unpack(s128(b)) };
        let st = |v: M::u32x4| -> Vec<u8> { b128(v.into()) };
        bitops0!(c, "u32x4", o128, M::u32x4, ld, st);
        rot32!(c, "u32x4", o128, M::u32x4, ld, st);
        arith!(c, "u32x4", o128, M::u32x4, ld, st);
        words4ops!(c, "u32x4", o128, M::u32x4, ld, st);
        lanewords4ops!(c, "u32x4", o128, M::u32x4, ld, st);
        storebytes!(c, m, "u32x4", o128, M::u32x4, ld, st, 16);
        for (a, b) in o128.iter() {
            if c.begin("u32x4", "to_lanes", a, &[], 0) { let l: [u32; 4] = ld(a).to_lanes(); let o: Vec<u8> = l.iter().flat_map(|x| x.to_le_bytes()).collect(); c.end(&o); }
            if c.begin("u32x4", "from_lanes", a, &[], 0) { let v = <M::u32x4 as MultiLane<[u32; 4]>>::from_lanes(words4(a)); let o = st(v); c.end(&o); }
            if c.begin("u32x4", "vec", a, &[], 0) { let v: M::u32x4 = m.vec(words4(a)); let o = st(v); c.end(&o); }
            for i in 0..4u32 {
                if c.begin("u32x4", "extract", a, &[], i as i64) { let w: u32 = ld(a).extract(i); c.end(&w.to_le_bytes()); }
                if c.begin("u32x4", "insert", a, &b[..4], i as i64) { let v = ld(a).insert(words4(b)[0], i); let o = st(v); c.end(&o); }
            }
        }
    }
    // ------------------------------------------------------------------ u64x2
    {
        let ld = |b: &Vec<u8>| -> M::u64x2 { m.unpack(s128(b)) };
        let st = |v: M::u64x2| -> Vec<u8> { b128(v.into()) };
        bitops0!(c, "u64x2", o128, M::u64x2, ld, st);
        rot32!(c, "u64x2", o128, M::u64x2, ld, st);
        rot64!(c, "u64x2", o128, M::u64x2, ld, st);
        arith!(c, "u64x2", o128, M::u64x2, ld, st);
        for (a, b) in o128.iter() {
            if c.begin("u64x2", "to_lanes", a, &[], 0) { let l: [u64; 2] = ld(a).to_lanes(); let o: Vec<u8> = l.iter().flat_map(|x| x.to_le_bytes()).collect(); c.end(&o); }
            if c.begin("u64x2", "from_lanes", a, &[], 0) { let v = <M::u64x2 as MultiLane<[u64; 2]>>::from_lanes([le64(&a[..8]), le64(&a[8..])]); let o = st(v); c.end(&o); }
            if c.begin("u64x2", "vec", a, &[], 0) { let v: M::u64x2 = m.vec([le64(&a[..8]), le64(&a[8..])]); let o = st(v); c.end(&o); }
            for i in 0..2u32 {
                if c.begin("u64x2", "extract", a, &[], i as i64) { let w: u64 = ld(a).extract(i); c.end(&w.to_le_bytes()); }
                if c.begin("u64x2", "insert", a, &b[..8], i as i64) { let v = ld(a).insert(le64(&b[..8]), i); let o = st(v); c.end(&o); }
            }
        }
    }
    // ------------------------------------------------------------------ u128x1
    {
        let ld = |b: &Vec<u8>| -> M::u128x1 { m.unpack(s128(b)) };
        let st = |v: M::u128x1| -> Vec<u8> { b128(v.into()) };
        bitops0!(c, "u128x1", o128, M::u128x1, ld, st);
        rot32!(c, "u128x1", o128, M::u128x1, ld, st);
        rot64!(c, "u128x1", o128, M::u128x1, ld, st);
        swap64ops!(c, "u128x1", o128, M::u128x1, ld, st);
        for (a, _b) in o128.iter() {
            if c.begin("u128x1", "to_lanes", a, &[], 0) { let l: [u128; 1] = ld(a).to_lanes(); c.end(&l[0].to_le_bytes()); }
            if c.begin("u128x1", "from_lanes", a, &[], 0) { let v = <M::u128x1 as MultiLane<[u128; 1]>>::from_lanes([le128(a)]); let o = st(v); c.end(&o); }
            if c.begin("u128x1", "vec", a, &[], 0) { let v: M::u128x1 = m.vec([le128(a)]); let o = st(v); c.end(&o); }
        }
    }
    // ------------------------------------------------------------------ u32x4x2
    {
        let ld = |b: &Vec<u8>| -> M::u32x4x2 { m.unpack(s256(b)) };
        let st = |v: M::u32x4x2| -> Vec<u8> { b256(v.into()) };
        let ld1 = |b: &[u8]| -> M::u32x4 { m.unpack(s128(b)) };
        let st1 = |v: M::u32x4| -> Vec<u8> { b128(v.into()) };
        bitops0!(c, "u32x4x2", o256, M::u32x4x2, ld, st);
        rot32!(c, "u32x4x2", o256, M::u32x4x2, ld, st);
        arith!(c, "u32x4x2", o256, M::u32x4x2, ld, st);
        storebytes!(c, m, "u32x4x2", o256, M::u32x4x2, ld, st, 32);
        for (a, b) in o256.iter() {
            if c.begin("u32x4x2", "to_lanes", a, &[], 0) { let l: [M::u32x4; 2] = ld(a).to_lanes(); let mut o = st1(l[0]); o.extend(st1(l[1])); c.end(&o); }
            if c.begin("u32x4x2", "from_lanes", a, &[], 0) { let v = <M::u32x4x2 as MultiLane<[M::u32x4; 2]>>::from_lanes([ld1(&a[..16]), ld1(&a[16..])]); let o = st(v); c.end(&o); }
            for i in 0..2u32 {
                if c.begin("u32x4x2", "extract", a, &[], i as i64) { let w: M::u32x4 = ld(a).extract(i); let o = st1(w); c.end(&o); }
                if c.begin("u32x4x2", "insert", a, &b[..16], i as i64) { let v = ld(a).insert(ld1(&b[..16]), i); let o = st(v); c.end(&o); }
            }
        }
    }
    // ------------------------------------------------------------------ u64x2x2
    {
        let ld = |b: &Vec<u8>| -> M::u64x2x2 { m.unpack(s256(b)) };
        let st = |v: M::u64x2x2| -> Vec<u8> { b256(v.into()) };
        let ld1 = |b: &[u8]| -> M::u64x2 { m.unpack(s128(b)) };
        let st1 = |v: M::u64x2| -> Vec<u8> { b128(v.into()) };
        bitops0!(c, "u64x2x2", o256, M::u64x2x2, ld, st);
        rot32!(c, "u64x2x2", o256, M::u64x2x2, ld, st);
        rot64!(c, "u64x2x2", o256, M::u64x2x2, ld, st);
        arith!(c, "u64x2x2", o256, M::u64x2x2, ld, st);
        storebytes!(c, m, "u64x2x2", o256, M::u64x2x2, ld, st, 32);
        for (a, b) in o256.iter() {
            if c.begin("u64x2x2", "to_lanes", a, &[], 0) { let l: [M::u64x2; 2] = ld(a).to_lanes(); let mut o = st1(l[0]); o.extend(st1(l[1])); c.end(&o); }
            if c.begin("u64x2x2", "from_lanes", a, &[], 0) { let v = <M::u64x2x2 as MultiLane<[M::u64x2; 2]>>::from_lanes([ld1(&a[..16]), ld1(&a[16..])]); let o = st(v); c.end(&o); }
            for i in 0..2u32 {
                if c.begin("u64x2x2", "extract", a, &[], i as i64) { let w: M::u64x2 = ld(a).extract(i); let o = st1(w); c.end(&o); }
                if c.begin("u64x2x2", "insert", a, &b[..16], i as i64) { let v = ld(a).insert(ld1(&b[..16]), i); let o = st(v); c.end(&o); }
            }
        }
    }
    // ------------------------------------------------------------------ u64x4
    {
        let ld = |b: &Vec<u8>| -> M::u64x4 { m.unpack(s256(b)) };
        let st = |v: M::u64x4| -> Vec<u8> { b256(v.into()) };
        bitops0!(c, "u64x4", o256, M::u64x4, ld, st);
        rot32!(c, "u64x4", o256, M::u64x4, ld, st);
        rot64!(c, "u64x4", o256, M::u64x4, ld, st);
        arith!(c, "u64x4", o256, M::u64x4, ld, st);
        words4ops!(c, "u64x4", o256, M::u64x4, ld, st);
        storebytes!(c, m, "u64x4", o256, M::u64x4, ld, st, 32);
        for (a, b) in o256.iter() {
            let w4 = [le64(&a[..8]), le64(&a[8..16]), le64(&a[16..24]), le64(&a[24..32])];
            if c.begin("u64x4", "to_lanes", a, &[], 0) { let l: [u64; 4] = ld(a).to_lanes(); let o: Vec<u8> = l.iter().flat_map(|x| x.to_le_bytes()).collect(); c.end(&o); }
            if c.begin("u64x4", "from_lanes", a, &[], 0) { let v = <M::u64x4 as MultiLane<[u64; 4]>>::from_lanes(w4); let o = st(v); c.end(&o); }
            if c.begin("u64x4", "vec", a, &[], 0) { let v: M::u64x4 = m.vec(w4); let o = st(v); c.end(&o); }
            for i in 0..4u32 {
                if c.begin("u64x4", "extract", a, &[], i as i64) { let w: u64 = ld(a).extract(i); c.end(&w.to_le_bytes()); }
                if c.begin("u64x4", "insert", a, &b[..8], i as i64) { let v = ld(a).insert(le64(&b[..8]), i); let o = st(v); c.end(&o); }
            }
        }
    }
    // ------------------------------------------------------------------ u128x2
    {
        let ld = |b: &Vec<u8>| -> M::u128x2 { m.unpack(s256(b)) };
        let st = |v: M::u128x2| -> Vec<u8> { b256(v.into()) };
        let ld1 = |b: &[u8]| -> M::u128x1 { m.unpack(s128(b)) };
        let st1 = |v: M::u128x1| -> Vec<u8> { b128(v.into()) };
        bitops0!(c, "u128x2", o256, M::u128x2, ld, st);
        rot32!(c, "u128x2", o256, M::u128x2, ld, st);
        rot64!(c, "u128x2", o256, M::u128x2, ld, st);
        swap64ops!(c, "u128x2", o256, M::u128x2, ld, st);
        for (a, b) in o256.iter() {
            if c.begin("u128x2", "to_lanes", a, &[], 0) { let l: [M::u128x1; 2] = ld(a).to_lanes(); let mut o = st1(l[0]); o.extend(st1(l[1])); c.end(&o); }
            if c.begin("u128x2", "from_lanes", a, &[], 0) { let v = <M::u128x2 as MultiLane<[M::u128x1; 2]>>::from_lanes([ld1(&a[..16]), ld1(&a[16..])]); let o = st(v); c.end(&o); }
            if c.begin("u128x2", "vzip", a, &[], 0) { let v: M::u128x2 = [ld1(&a[..16]), ld1(&a[16..])].vzip(); let o = st(v); c.end(&o); }
            for i in 0..2u32 {
                if c.begin("u128x2", "extract", a, &[], i as i64) { let w: M::u128x1 = ld(a).extract(i); let o = st1(w); c.end(&o); }
                if c.begin("u128x2", "insert", a, &b[..16], i as i64) { let v = ld(a).insert(ld1(&b[..16]), i); let o = st(v); c.end(&o); }
            }
        }
    }
    // ------------------------------------------------------------------ u32x4x4
    {
        let ld = |b: &Vec<u8>| -> M::u32x4x4 { m.unpack(s512(b)) };
        let st = |v: M::u32x4x4| -> Vec<u8> { b512(v.into()) };
        let ld1 = |b: &[u8]| -> M::u32x4 { m.unpack(s128(b)) };
        let st1 = |v: M::u32x4| -> Vec<u8> { b128(v.into()) };
        bitops0!(c, "u32x4x4", o512, M::u32x4x4, ld, st);
        rot32!(c, "u32x4x4", o512, M::u32x4x4, ld, st);
        arith!(c, "u32x4x4", o512, M::u32x4x4, ld, st);
        lanewords4ops!(c, "u32x4x4", o512, M::u32x4x4, ld, st);
        storebytes!(c, m, "u32x4x4", o512, M::u32x4x4, ld, st, 64);
        for (k, (a, b)) in o512.iter().enumerate() {
            if c.begin("u32x4x4", "to_lanes", a, &[], 0) { let l: [M::u32x4; 4] = ld(a).to_lanes(); let mut o = vec![]; for x in l.iter() { o.extend(st1(*x)); } c.end(&o); }
            if c.begin("u32x4x4", "from_lanes", a, &[], 0) {
                let v = <M::u32x4x4 as MultiLane<[M::u32x4; 4]>>::from_lanes([ld1(&a[..16]), ld1(&a[16..32]), ld1(&a[32..48]), ld1(&a[48..])]);
                let o = st(v); c.end(&o); }
            if c.begin("u32x4x4", "to_scalars", a, &[], 0) { let l: [u32; 16] = ld(a).to_scalars(); let o: Vec<u8> = l.iter().flat_map(|x| x.to_le_bytes()).collect(); c.end(&o); }
            for i in 0..4u32 {
                if c.begin("u32x4x4", "extract", a, &[], i as i64) { let w: M::u32x4 = ld(a).extract(i); let o = st1(w); c.end(&o); }
                if c.begin("u32x4x4", "insert", a, &b[..16], i as i64) { let v = ld(a).insert(ld1(&b[..16]), i); let o = st(v); c.end(&o); }
            }
            // transpose4 of (a, b, a', b') where a', b' are the next operand pair
            let (a2, b2) = &o512[(k + 1) % o512.len()];
            let mut ab = a.clone(); ab.extend(b); ab.extend(a2); ab.extend(b2);
            if c.begin("u32x4x4", "transpose4", &ab, &[], 0) {
                let (p, q, r, s) = <M::u32x4x4 as Vec4Ext<M::u32x4>>::transpose4(ld(a), ld(b), ld(a2), ld(b2));
                let mut o = st(p); o.extend(st(q)); o.extend(st(r)); o.extend(st(s)); c.end(&o); }
        }
    }
    // ------------------------------------------------------------------ u64x2x4
    {
        let ld = |b: &Vec<u8>| -> M::u64x2x4 { m.unpack(s512(b)) };
        let st = |v: M::u64x2x4| -> Vec<u8> { b512(v.into()) };
        let ld1 = |b: &[u8]| -> M::u64x2 { m.unpack(s128(b)) };
        let st1 = |v: M::u64x2| -> Vec<u8> { b128(v.into()) };
        bitops0!(c, "u64x2x4", o512, M::u64x2x4, ld, st);
        rot32!(c, "u64x2x4", o512, M::u64x2x4, ld, st);
        rot64!(c, "u64x2x4", o512, M::u64x2x4, ld, st);
        arith!(c, "u64x2x4", o512, M::u64x2x4, ld, st);
        for (a, b) in o512.iter() {
            if c.begin("u64x2x4", "to_lanes", a, &[], 0) { let l: [M::u64x2; 4] = ld(a).to_lanes(); let mut o = vec![]; for x in l.iter() { o.extend(st1(*x)); } c.end(&o); }
            if c.begin("u64x2x4", "from_lanes", a, &[], 0) {
                let v = <M::u64x2x4 as MultiLane<[M::u64x2; 4]>>::from_lanes([ld1(&a[..16]), ld1(&a[16..32]), ld1(&a[32..48]), ld1(&a[48..])]);
                let o = st(v); c.end(&o); }
            for i in 0..4u32 {
                if c.begin("u64x2x4", "extract", a, &[], i as i64) { let w: M::u64x2 = ld(a).extract(i); let o = st1(w); c.end(&o); }
                if c.begin("u64x2x4", "insert", a, &b[..16], i as i64) { let v = ld(a).insert(ld1(&b[..16]), i); let o = st(v); c.end(&o); }
            }
        }
    }
    // ------------------------------------------------------------------ u128x4
    {
        let ld = |b: &Vec<u8>| -> M::u128x4 { m.unpack(s512(b)) };
        let st = |v: M::u128x4| -> Vec<u8> { b512(v.into()) };
        let ld1 = |b: &[u8]| -> M::u128x1 { m.unpack(s128(b)) };
        let st1 = |v: M::u128x1| -> Vec<u8> { b128(v.into()) };
        bitops0!(c, "u128x4", o512, M::u128x4, ld, st);
        rot32!(c, "u128x4", o512, M::u128x4, ld, st);
        rot64!(c, "u128x4", o512, M::u128x4, ld, st);
        swap64ops!(c, "u128x4", o512, M::u128x4, ld, st);
        for (a, b) in o512.iter() {
            if c.begin("u128x4", "to_lanes", a, &[], 0) { let l: [M::u128x1; 4] = ld(a).to_lanes(); let mut o = vec![]; for x in l.iter() { o.extend(st1(*x)); } c.end(&o); }
            if c.begin("u128x4", "from_lanes", a, &[], 0) {
                let v = <M::u128x4 as MultiLane<[M::u128x1; 4]>>::from_lanes([ld1(&a[..16]), ld1(&a[16..32]), ld1(&a[32..48]), ld1(&a[48..])]);
                let o = st(v); c.end(&o); }
            for i in 0..4u32 {
                if c.begin("u128x4", "extract", a, &[], i as i64) { let w: M::u128x1 = ld(a).extract(i); let o = st1(w); c.end(&o); }
                if c.begin("u128x4", "insert", a, &b[..16], i as i64) { let v = ld(a).insert(ld1(&b[..16]), i); let o = st(v); c.end(&o); }
            }
        }
    }
    // ------------------------------------------------------------------ storage reinterpretation (C13)
    for (a, _b) in o128.iter() {
        if c.begin("vec128_storage", "as_u64x2", a, &[], 0) { let q: [u64; 2] = s128(a).into(); let o: Vec<u8> = q.iter().flat_map(|x| x.to_le_bytes()).collect(); c.end(&o); }
        if c.begin("vec128_storage", "from_u64x2", a, &[], 0) { let x: M::u64x2 = m.vec([le64(&a[..8]), le64(&a[8..])]); let s: vec128_storage = x.into(); let o = b128(s); c.end(&o); }
        if c.begin("vec128_storage", "u128x1_into_u32x4", a, &[], 0) { let x: M::u128x1 = m.unpack(s128(a)); let y: M::u32x4 = m.unpack(x.into()); let o = b128(y.into()); c.end(&o); }
    }
    for (a, _b) in o256.iter() {
        if c.begin("vec256_storage", "as_u64x4", a, &[], 0) { let q: [u64; 4] = s256(a).into(); let o: Vec<u8> = q.iter().flat_map(|x| x.to_le_bytes()).collect(); c.end(&o); }
        if c.begin("vec256_storage", "from_u64x4", a, &[], 0) {
            let s: vec256_storage = [le64(&a[..8]), le64(&a[8..16]), le64(&a[16..24]), le64(&a[24..32])].into(); let o = b256(s); c.end(&o); }
        if c.begin("vec256_storage", "u64x4_as_u32x4x2", a, &[], 0) { let x: M::u64x4 = m.unpack(s256(a)); let y: M::u32x4x2 = m.unpack(x.into()); let o = b256(y.into()); c.end(&o); }
        if c.begin("vec256_storage", "u128x2_as_u64x2x2", a, &[], 0) { let x: M::u128x2 = m.unpack(s256(a)); let y: M::u64x2x2 = m.unpack(x.into()); let o = b256(y.into()); c.end(&o); }
    }
    for (a, _b) in o512.iter() {
        if c.begin("vec512_storage", "u64x2x4_as_u32x4x4", a, &[], 0) { let x: M::u64x2x4 = m.unpack(s512(a)); let y: M::u32x4x4 = m.unpack(x.into()); let o = b512(y.into()); c.end(&o); }
        if c.begin("vec512_storage", "u128x4_as_u64x2x4", a, &[], 0) { let x: M::u128x4 = m.unpack(s512(a)); let y: M::u64x2x4 = m.unpack(x.into()); let o = b512(y.into()); c.end(&o); }
    }
}

dispatch!(m, Mach, {
    fn run_dispatch(c: &mut Ctx) {
        exercise(m, c)
    }
});
dispatch_light128!(m, Mach, {
    fn mach_light128(name: &mut String) {
        let _ = m;
        *name = core::any::type_name::<Mach>().to_string();
    }
});
dispatch_light256!(m, Mach, {
    fn mach_light256(name: &mut String) {
        let _ = m;
        *name = core::any::type_name::<Mach>().to_string();
    }
});
dispatch!(m, Mach, {
    fn mach_dispatch(name: &mut String) {
        let _ = m;
        *name = core::any::type_name::<Mach>().to_string();
    }
});

const LANE_PARTITIONS4: [[usize; 4]; 15] = [
    [0, 0, 0, 0], [0, 0, 0, 1], [0, 0, 1, 0], [0, 1, 0, 0], [0, 1, 1, 1], [0, 0, 1, 1], [0, 1, 0, 1], [0, 1, 1, 0],
    [0, 0, 1, 2], [0, 1, 0, 2], [0, 1, 2, 0], [0, 1, 1, 2], [0, 1, 2, 1], [0, 1, 2, 2], [0, 1, 2, 3],
];

fn operands(rng: &mut Rng, n: usize, thorough: bool) -> Vec<(Vec<u8>, Vec<u8>)> {
    let mut v: Vec<(Vec<u8>, Vec<u8>)> = vec![];
    let pos: Vec<u8> = (0..n).map(|i| (i + 1) as u8).collect(); // every byte distinguishable: 01 02 .. n
    let pos2: Vec<u8> = (0..n).map(|i| (0xf0 - i) as u8).collect();
    v.push((pos.clone(), pos2.clone()));
    v.push((vec![0xffu8; n], pos.clone())); // carries out of every word
    v.push((vec![0u8; n], vec![0xffu8; n]));
    v.push((vec![0xffu8; n], vec![0xffu8; n]));
    // single-bit walkers (one per word position class)
    let bits: Vec<usize> = if thorough { (0..n * 8).step_by(7).collect() } else { vec![0, 7, 31, 32, 63, 64, 127 % (n * 8), n * 8 - 1] };
    for bit in bits {
        let mut a = vec![0u8; n];
        a[bit / 8] |= 1 << (bit % 8);
        let mut b = vec![0xffu8; n];
        b[(bit / 8 + 5) % n] ^= 1 << (bit % 8);
        v.push((a, b));
    }
    for _ in 0..(if thorough { 60 } else { 5 }) {
        v.push((rng.bytes(n), rng.bytes(n)));
    }
    // related operands: b = !a (sums of all-ones, no shared bits), b = a (equal words), b = a + 1 per 64-bit word, b = -a
    let ra = rng.bytes(n);
    v.push((ra.clone(), ra.iter().map(|x| !x).collect()));
    v.push((ra.clone(), ra.clone()));
    let mut neg = vec![];
    let mut inc = vec![];
    for ch in ra.chunks(8) {
        let w = u64::from_le_bytes([ch[0], ch[1], ch[2], ch[3], ch[4], ch[5], ch[6], ch[7]]);
        neg.extend_from_slice(&w.wrapping_neg().to_le_bytes());
        inc.extend_from_slice(&(!w).wrapping_add(1 << 32).to_le_bytes());
    }
    v.push((ra.clone(), neg));
    v.push((ra.clone(), inc));
    // -a at 32-bit and at 128-bit granularity
    let mut neg32 = vec![];
    for ch in ra.chunks(4) {
        let w = u32::from_le_bytes([ch[0], ch[1], ch[2], ch[3]]);
        neg32.extend_from_slice(&w.wrapping_neg().to_le_bytes());
    }
    v.push((ra.clone(), neg32));
    let mut neg128 = vec![];
    for ch in ra.chunks(16) {
        let mut x = [0u8; 16];
        x.copy_from_slice(ch);
        neg128.extend_from_slice(&u128::from_le_bytes(x).wrapping_neg().to_le_bytes());
    }
    v.push((ra, neg128));
    // operand STRUCTURE: the four quarters of each operand under every equality pattern (15 set partitions of four)
    for part in LANE_PARTITIONS4.iter() {
        let q = n / 4;
        let va: Vec<Vec<u8>> = (0..4).map(|_| rng.bytes(q)).collect();
        let vb: Vec<Vec<u8>> = (0..4).map(|_| rng.bytes(q)).collect();
        let a: Vec<u8> = part.iter().flat_map(|&c| va[c].clone()).collect();
        let b: Vec<u8> = part.iter().flat_map(|&c| vb[c].clone()).collect();
        v.push((a, b));
    }
    // add with carries: a + b where each word of a is all-ones minus small
    let a: Vec<u8> = (0..n).map(|i| if i % 4 == 0 { 0xfe } else { 0xff }).collect();
    let b: Vec<u8> = (0..n).map(|i| if i % 4 == 0 { 0x03 } else { 0x00 }).collect();
    v.push((a, b));
    v
}

pub fn features_json() -> String {
    #[cfg(all(target_arch = "x86_64", feature = "std"))]
    {
        return format!(
            "{{\"sse2\":{},\"ssse3\":{},\"sse41\":{},\"avx\":{},\"avx2\":{}}}",
            is_x86_feature_detected!("sse2"),
            is_x86_feature_detected!("ssse3"),
            is_x86_feature_detected!("sse4.1"),
            is_x86_feature_detected!("avx"),
            is_x86_feature_detected!("avx2")
        );
    }
    #[allow(unreachable_code)]
    {
        format!(
            "{{\"sse2\":{},\"ssse3\":{},\"sse41\":{},\"avx\":{},\"avx2\":{}}}",
            cfg!(target_feature = "sse2"),
            cfg!(target_feature = "ssse3"),
            cfg!(target_feature = "sse4.1"),
            cfg!(target_feature = "avx"),
            cfg!(target_feature = "avx2")
        )
    }
}

/// Which Machine each of the three dispatch macros selects in this build / under this override.
pub fn mach_event(out: &mut dyn std::io::Write, cfg: &str, force: u8) {
    let mut a = String::new();
    let mut b = String::new();
    let mut d = String::new();
    mach_dispatch(&mut a);
    mach_light128(&mut b);
    mach_light256(&mut d);
    let mode = if cfg!(feature = "nosimd") {
        "nosimd"
    } else if cfg!(feature = "std") {
        "std"
    } else {
        "nostd"
    };
    Ev::new(0, "mach")
        .s("cfg", cfg)
        .s("mode", mode)
        .i("force", force as i64)
        .raw("feat", &features_json())
        .s("dispatch", &a)
        .s("light128", &b)
        .s("light256", &d)
        .emit(out);
}

/// Operations the concrete vector types expose beyond the Machine trait bounds (C12: "operations a backend
/// exposes return rather than panic"): u128x1 bswap and byte I/O, u64x2 byte I/O.  Called on the concrete machine.
/// operations that exist on the concrete vector types beyond what the `Machine` trait bounds promise
macro_rules! assignops {
    ($c:ident, $ty:expr, $ops:expr, $V:ty, $ld:expr, $st:expr) => {
        bin!($c, $ty, $ops, $V, $ld, $st,
            "and_assign" => |x: $V, y: $V| { let mut z = x; z &= y; z },
            "or_assign" => |x: $V, y: $V| { let mut z = x; z |= y; z });
    };
}
macro_rules! eqop {
    ($c:ident, $ty:expr, $ops:expr, $V:ty, $ld:expr) => {
        for (k, (a, b)) in $ops.clone().iter().enumerate() {
            // equal operands, operands differing in one byte (position rotates), unrelated operands
            let mut b1 = a.clone();
            b1[k % a.len()] ^= 1 << (k % 8);
            for bb in [a.clone(), b1, b.clone()].iter() {
                if $c.begin($ty, "eq", a, bb, 0) { let x: $V = $ld(a); let y: $V = $ld(bb); let r = x == y; $c.end(&[r as u8]); }
            }
        }
    };
}
/// byte I/O of the 128-bit-word types: implemented by the x86 backends only
macro_rules! concrete_u128io {
    ($c:ident, $M:ty) => {{
        let m = unsafe { <$M as Machine>::instance() };
        let o128 = $c.ops128.clone();
        let o256 = $c.ops256.clone();
        let o512 = $c.ops512.clone();
        {
            type V = <$M as Machine>::u128x1;
            let ld = |b: &Vec<u8>| -> V { m.unpack(s128(b)) };
            let st = |v: V| -> Vec<u8> { b128(v.into()) };
            storebytes!($c, m, "u128x1", o128, V, ld, st, 16);
        }
        {
            type V = <$M as Machine>::u128x2;
            let ld = |b: &Vec<u8>| -> V { m.unpack(s256(b)) };
            let st = |v: V| -> Vec<u8> { b256(v.into()) };
            storebytes!($c, m, "u128x2", o256, V, ld, st, 32);
        }
        {
            type V = <$M as Machine>::u128x4;
            let ld = |b: &Vec<u8>| -> V { m.unpack(s512(b)) };
            let st = |v: V| -> Vec<u8> { b512(v.into()) };
            storebytes!($c, m, "u128x4", o512, V, ld, st, 64);
        }
        // storage conversions (x86 storage unions only; no Machine involved)
        for (a, _b) in o128.iter() {
            if $c.begin("u128x1", "st_u128x1", a, &[], 0) { let w: [u128; 1] = s128(a).into(); $c.end(&w[0].to_le_bytes()); }
        }
        for (a, _b) in o256.iter() {
            if $c.begin("u32x4x2", "st_u32x8", a, &[], 0) { let w: [u32; 8] = s256(a).into(); let o: Vec<u8> = w.iter().flat_map(|x| x.to_le_bytes()).collect(); $c.end(&o); }
            if $c.begin("u128x2", "st_u128x2", a, &[], 0) { let w: [u128; 2] = s256(a).into(); let o: Vec<u8> = w.iter().flat_map(|x| x.to_le_bytes()).collect(); $c.end(&o); }
        }
        for (a, _b) in o512.iter() {
            if $c.begin("u32x4x4", "st_u32x16", a, &[], 0) { let w: [u32; 16] = s512(a).into(); let o: Vec<u8> = w.iter().flat_map(|x| x.to_le_bytes()).collect(); $c.end(&o); }
            if $c.begin("u64x2x4", "st_u64x8", a, &[], 0) { let w: [u64; 8] = s512(a).into(); let o: Vec<u8> = w.iter().flat_map(|x| x.to_le_bytes()).collect(); $c.end(&o); }
            if $c.begin("u128x4", "st_u128x4", a, &[], 0) { let w: [u128; 4] = s512(a).into(); let o: Vec<u8> = w.iter().flat_map(|x| x.to_le_bytes()).collect(); $c.end(&o); }
        }
    }};
}
macro_rules! concrete_ops {
    ($c:ident, $M:ty) => {{
        let m = unsafe { <$M as Machine>::instance() };
        $c.mach = core::any::type_name::<$M>().to_string();
        let o128 = $c.ops128.clone();
        let o256 = $c.ops256.clone();
        let o512 = $c.ops512.clone();
        {
            type V = <$M as Machine>::u128x1;
            let ld = |b: &Vec<u8>| -> V { m.unpack(s128(b)) };
            let st = |v: V| -> Vec<u8> { b128(v.into()) };
            un!($c, "u128x1", o128, V, ld, st, "bswap" => |x: V| x.bswap());
            assignops!($c, "u128x1", o128, V, ld, st);
        }
        {
            type V = <$M as Machine>::u64x2;
            let ld = |b: &Vec<u8>| -> V { m.unpack(s128(b)) };
            let st = |v: V| -> Vec<u8> { b128(v.into()) };
            storebytes!($c, m, "u64x2", o128, V, ld, st, 16);
            assignops!($c, "u64x2", o128, V, ld, st);
            eqop!($c, "u64x2", o128, V, ld);
        }
        {
            type V = <$M as Machine>::u32x4;
            let ld = |b: &Vec<u8>| -> V { m.unpack(s128(b)) };
            let st = |v: V| -> Vec<u8> { b128(v.into()) };
            assignops!($c, "u32x4", o128, V, ld, st);
            eqop!($c, "u32x4", o128, V, ld);
        }
        {
            type V = <$M as Machine>::u32x4x2;
            let ld = |b: &Vec<u8>| -> V { m.unpack(s256(b)) };
            let st = |v: V| -> Vec<u8> { b256(v.into()) };
            assignops!($c, "u32x4x2", o256, V, ld, st);
            lanewords4ops!($c, "u32x4x2", o256, V, ld, st);
        }
        {
            type V = <$M as Machine>::u64x2x2;
            let ld = |b: &Vec<u8>| -> V { m.unpack(s256(b)) };
            let st = |v: V| -> Vec<u8> { b256(v.into()) };
            assignops!($c, "u64x2x2", o256, V, ld, st);
        }
        {
            type V = <$M as Machine>::u64x4;
            let ld = |b: &Vec<u8>| -> V { m.unpack(s256(b)) };
            let st = |v: V| -> Vec<u8> { b256(v.into()) };
            assignops!($c, "u64x4", o256, V, ld, st);
        }
        {
            type V = <$M as Machine>::u128x2;
            let ld = |b: &Vec<u8>| -> V { m.unpack(s256(b)) };
            let st = |v: V| -> Vec<u8> { b256(v.into()) };
            assignops!($c, "u128x2", o256, V, ld, st);
            un!($c, "u128x2", o256, V, ld, st, "bswap" => |x: V| x.bswap());
        }
        {
            type V = <$M as Machine>::u32x4x4;
            let ld = |b: &Vec<u8>| -> V { m.unpack(s512(b)) };
            let st = |v: V| -> Vec<u8> { b512(v.into()) };
            assignops!($c, "u32x4x4", o512, V, ld, st);
        }
        {
            type V = <$M as Machine>::u64x2x4;
            let ld = |b: &Vec<u8>| -> V { m.unpack(s512(b)) };
            let st = |v: V| -> Vec<u8> { b512(v.into()) };
            assignops!($c, "u64x2x4", o512, V, ld, st);
            storebytes!($c, m, "u64x2x4", o512, V, ld, st, 64);
        }
        {
            type V = <$M as Machine>::u128x4;
            let ld = |b: &Vec<u8>| -> V { m.unpack(s512(b)) };
            let st = |v: V| -> Vec<u8> { b512(v.into()) };
            assignops!($c, "u128x4", o512, V, ld, st);
            un!($c, "u128x4", o512, V, ld, st, "bswap" => |x: V| x.bswap());
        }
    }};
}

#[cfg(not(feature = "nosimd"))]
fn run_concrete(c: &mut Ctx, which: usize) {
    use ppv_lite86::x86_64::{AVX2, SSE2, SSE41, SSSE3};
    match which {
        0 => { concrete_ops!(c, SSE2); concrete_u128io!(c, SSE2) }
        1 => { concrete_ops!(c, SSSE3); concrete_u128io!(c, SSSE3) }
        2 => { concrete_ops!(c, SSE41); concrete_u128io!(c, SSE41) }
        _ => { concrete_ops!(c, AVX2); concrete_u128io!(c, AVX2) }
    }
}
#[cfg(feature = "nosimd")]
fn run_concrete(c: &mut Ctx, _which: usize) {
    use ppv_lite86::generic::GenericMachine;
    concrete_ops!(c, GenericMachine);
    let m = unsafe { GenericMachine::instance() };
    let o128 = c.ops128.clone();
    type V = <GenericMachine as Machine>::u128x1;
    let ld = |b: &Vec<u8>| -> V { m.unpack(s128(b)) };
    let st = |v: V| -> Vec<u8> { b128(v.into()) };
    bin!(c, "u128x1", o128, V, ld, st, "add" => |x: V, y: V| x + y, "add_assign" => |x: V, y: V| { let mut z = x; z += y; z });
}

fn run_guarded(c: &mut Ctx, f: &mut dyn FnMut(&mut Ctx)) {
    c.done = 0;
    loop {
        c.cursor = 0;
        let r = catch_unwind(AssertUnwindSafe(|| f(c)));
        match r {
            Ok(()) => break,
            Err(e) => {
                let msg = if let Some(s) = e.downcast_ref::<&str>() {
                    s.to_string()
                } else if let Some(s) = e.downcast_ref::<String>() {
                    s.clone()
                } else {
                    "panic".to_string()
                };
                if c.cur.is_none() {
                    eprintln!("harness: panic outside an operation: {}", msg);
                    std::process::exit(2);
                }
                c.emit(&[], &format!("panic:{}", sanitize(&msg)));
            }
        }
    }
}

pub fn drive_simd(out: &mut dyn std::io::Write, seed: u64, thorough: bool, cfg: &str, force: u8) {
    mach_event(out, cfg, force);
    let mut rng = Rng::new(seed ^ 0x51d);
    let mut c = Ctx {
        out,
        done: 0,
        cursor: 0,
        cur: None,
        mach: String::new(),
        ops128: operands(&mut rng, 16, thorough),
        ops256: operands(&mut rng, 32, thorough),
        ops512: operands(&mut rng, 64, thorough),
        cfg: cfg.to_string(),
    };
    run_guarded(&mut c, &mut |c| run_dispatch(c));
    if force == 0 {
        let n = if cfg!(feature = "nosimd") { 1 } else { 4 };
        for which in 0..n {
            c.cfg = format!("{}/concrete", cfg);
            run_guarded(&mut c, &mut |c| run_concrete(c, which));
        }
    }
}

// ------------------------------------------------------------------------------------------------
// C16: vector byte I/O on slices abutting unmapped pages, on whichever backend the dispatch macro selects

macro_rules! align_io {
    ($m:ident, $g:ident, $io:ident, $ty:expr, $V:ty, $n:expr, $ld:expr, $st:expr, $rng:ident, $thorough:ident) => {
        for rep in 0..(if $thorough { 4 } else { 1 }) {
            let a = $rng.bytes($n);
            for (place, align) in [("end", 0usize), ("start", 0), ("mid", 1 + rep * 13), ("mid", 31), ("mid", 48 + rep)] {
                // loads: the slice is the only mapped memory next to the guard page
                for be in [false, true] {
                    $g.refill();
                    $io.call(if be { "read_be" } else { "read_le" }, $ty, place, $n, align);
                    let (off, s) = $g.place(place, $n, align);
                    s.copy_from_slice(&a);
                    let v: $V = if be { $m.read_be(s) } else { $m.read_le(s) };
                    let o = $st(v);
                    let mut heap = a.clone();
                    let r: $V = if be { $m.read_be(&mut heap[..]) } else { $m.read_le(&mut heap[..]) };
                    let can = { let rw = $g.rw(); rw[off..off + $n] == a[..] } && true;
                    $io.ret(&o, &$st(r), can, "ok");
                }
                for be in [false, true] {
                    $g.refill();
                    $io.call(if be { "write_be" } else { "write_le" }, $ty, place, $n, align);
                    let v: $V = $ld(&a);
                    let (off, s) = $g.place(place, $n, align);
                    if be { v.write_be(s) } else { v.write_le(s) }
                    let o = s.to_vec();
                    let mut heap = vec![0u8; $n];
                    if be { v.write_be(&mut heap[..]) } else { v.write_le(&mut heap[..]) }
                    let can = $g.canary_ok(off, $n);
                    $io.ret(&o, &heap, can, "ok");
                }
            }
        }
    };
}

#[inline(always)]
fn align_vec_io_impl<M: Machine>(m: M, g: &mut crate::align::Guarded, io: &mut crate::align::VecIo, rng: &mut Rng, thorough: bool) {
    let ld1 = |b: &Vec<u8>| -> M::u32x4 { m.unpack(s128(b)) };
    let st1 = |v: M::u32x4| -> Vec<u8> { b128(v.into()) };
    align_io!(m, g, io, "u32x4", M::u32x4, 16, ld1, st1, rng, thorough);
    let ld2 = |b: &Vec<u8>| -> M::u32x4x2 { m.unpack(s256(b)) };
    let st2 = |v: M::u32x4x2| -> Vec<u8> { b256(v.into()) };
    align_io!(m, g, io, "u32x4x2", M::u32x4x2, 32, ld2, st2, rng, thorough);
    let ld3 = |b: &Vec<u8>| -> M::u64x2x2 { m.unpack(s256(b)) };
    let st3 = |v: M::u64x2x2| -> Vec<u8> { b256(v.into()) };
    align_io!(m, g, io, "u64x2x2", M::u64x2x2, 32, ld3, st3, rng, thorough);
    let ld4 = |b: &Vec<u8>| -> M::u64x4 { m.unpack(s256(b)) };
    let st4 = |v: M::u64x4| -> Vec<u8> { b256(v.into()) };
    align_io!(m, g, io, "u64x4", M::u64x4, 32, ld4, st4, rng, thorough);
    let ld5 = |b: &Vec<u8>| -> M::u32x4x4 { m.unpack(s512(b)) };
    let st5 = |v: M::u32x4x4| -> Vec<u8> { b512(v.into()) };
    align_io!(m, g, io, "u32x4x4", M::u32x4x4, 64, ld5, st5, rng, thorough);
}

dispatch!(m, Mach, {
    fn align_vec_io_d(g: &mut crate::align::Guarded, io: &mut crate::align::VecIo, rng: &mut Rng, thorough: bool) {
        align_vec_io_impl(m, g, io, rng, thorough)
    }
});

pub fn align_vec_io(g: &mut crate::align::Guarded, io: &mut crate::align::VecIo, rng: &mut Rng, thorough: bool) {
    align_vec_io_d(g, io, rng, thorough)
}
