mod align;
mod c17;
mod chacha;
mod conc;
mod guts;
mod hashes;
mod tf;
mod null;
mod simd;
mod util;

fn arg<'a>(args: &'a [String], name: &str) -> Option<&'a str> {
    args.iter().position(|a| a == name).and_then(|i| args.get(i + 1)).map(|s| s.as_str())
}

/// H1: force the ppv-lite86 backend chosen by the std arms of the dispatch macros (0 = run-time detection).
#[cfg(all(cryptocorrosion_verif, feature = "std", not(feature = "nosimd")))]
pub fn force_backend(level: u8) {
    ppv_lite86::x86_64::verif::force(level);
}
#[cfg(not(all(cryptocorrosion_verif, feature = "std", not(feature = "nosimd"))))]
pub fn force_backend(level: u8) {
    if level != 0 {
        eprintln!("backend override not available in this build");
        std::process::exit(2);
    }
}

fn main() {
    let args: Vec<String> = std::env::args().collect();
    if args.len() < 2 {
        eprintln!("usage: vharness <driver> [--seed N] [--tier quick|thorough] [--out FILE] [--script FILE]");
        std::process::exit(2);
    }
    util::quiet_panics();
    let seed: u64 = arg(&args, "--seed").map(|s| s.parse().expect("seed")).unwrap_or(1);
    let thorough = arg(&args, "--tier") == Some("thorough");
    if let Some(f) = arg(&args, "--force") {
        force_backend(f.parse().expect("force level"));
    }
    let mut out = util::open_out(arg(&args, "--out"));
    match args[1].as_str() {
        "c01" => chacha::drive_c01(&mut *out, seed, thorough),
        "stream-script" => chacha::run_script(&mut *out, arg(&args, "--script").expect("--script"), seed, true),
        "c14" => guts::drive_c14(&mut *out, seed, thorough),
        "c15" => guts::drive_c15(&mut *out, seed, thorough),
        "simd" => simd::drive_simd(&mut *out, seed, thorough, arg(&args, "--cfg").unwrap_or("?"), arg(&args, "--force").map(|f| f.parse().unwrap()).unwrap_or(0)),
        "c19" => null::drive_c19(&mut *out, seed, thorough),
        "digests" => hashes::drive_digests(&mut *out, arg(&args, "--family").expect("--family"), seed, thorough, arg(&args, "--cfg").unwrap_or("?")),
        "hash-script" => hashes::run_hash_script(&mut *out, arg(&args, "--script").expect("--script"), seed),
        "hash-rand" => hashes::drive_hash_histories(&mut *out, seed, thorough),
        "c17" => c17::drive_c17(&mut *out, seed, thorough, arg(&args, "--family").expect("--family")),
        "c17-stream" => c17::drive_c17_stream(&mut *out, arg(&args, "--which").expect("--which")),
        "c17-big" => c17::drive_c17_big(&mut *out, arg(&args, "--which").expect("--which")),
        "c16" => align::parent(&mut *out, seed, thorough, arg(&args, "--force").map(|f| f.parse().unwrap()).unwrap_or(0), arg(&args, "--only")),
        "c16-child" => align::child(&mut *out, arg(&args, "--group").expect("--group"), seed, thorough),
        "c18-interleave" => conc::drive_interleave(&mut *out, seed, thorough),
        "c18-schedules" => conc::run_sys_schedules(&mut *out, arg(&args, "--script").expect("--script"), seed),
        "c18-cold" => conc::drive_cold(&mut *out, arg(&args, "--threads").map(|t| t.parse().unwrap()).unwrap_or(8), seed),
        "c18-hot" => conc::drive_hot(&mut *out, arg(&args, "--threads").map(|t| t.parse().unwrap()).unwrap_or(8), arg(&args, "--iters").map(|t| t.parse().unwrap()).unwrap_or(100), seed),
        "tf-vectors" => tf::drive_tf_vectors(&mut *out, arg(&args, "--script").expect("--script"), arg(&args, "--cfg").unwrap_or("?")),
        "tf" => tf::drive_tf(&mut *out, seed, thorough, arg(&args, "--cfg").unwrap_or("?")),
        "stream-end64" => chacha::drive_end64(&mut *out, seed, thorough),
        "stream-rand" => chacha::drive_histories(&mut *out, seed, thorough, true),
        "stream-big" => chacha::drive_big(&mut *out, seed, thorough),
        d => {
            eprintln!("unknown driver {}", d);
            std::process::exit(2);
        }
    }
    util::flush(&mut *out);
}
