//! C19: every public method of the five ppv-null emulation types.
//! A value is the little-endian byte image of its words in order; one event per call, panics recorded.
use crate::util::*;
use crypto_simd_01::{RotateWordsRight, SplatRotateRight};
use ppv_null as pn;

fn w32(b: &[u8]) -> Vec<u32> {
    b.chunks(4).map(|c| u32::from_le_bytes([c[0], c[1], c[2], c[3]])).collect()
}
fn w64(b: &[u8]) -> Vec<u64> {
    b.chunks(8).map(|c| u64::from_le_bytes([c[0], c[1], c[2], c[3], c[4], c[5], c[6], c[7]])).collect()
}
fn w128(b: &[u8]) -> Vec<u128> {
    b.chunks(16)
        .map(|c| {
            let mut x = [0u8; 16];
            x.copy_from_slice(c);
            u128::from_le_bytes(x)
        })
        .collect()
}
fn b32(w: &[u32]) -> Vec<u8> {
    w.iter().flat_map(|x| x.to_le_bytes()).collect()
}
fn b64(w: &[u64]) -> Vec<u8> {
    w.iter().flat_map(|x| x.to_le_bytes()).collect()
}
fn b128(w: &[u128]) -> Vec<u8> {
    w.iter().flat_map(|x| x.to_le_bytes()).collect()
}

fn rec(out: &mut dyn std::io::Write, ty: &str, op: &str, a: &[u8], b: &[u8], i: i64, f: &mut dyn FnMut() -> Vec<u8>) {
    let r = guarded(|| f());
    let (res, o) = match r {
        Ok(o) => ("ok".to_string(), o),
        Err(p) => (format!("panic:{}", sanitize(&p)), vec![]),
    };
    Ev::new(0, "nop").s("ty", ty).s("op", op).bytes("a", a).bytes("b", b).i("i", i).bytes("out", &o).s("res", &res).emit(out);
}

fn ld32(b: &[u8]) -> pn::u32x4 {
    let w = w32(b);
    pn::u32x4::new(w[0], w[1], w[2], w[3])
}
fn st32(v: pn::u32x4) -> Vec<u8> {
    let mut w = [0u32; 4];
    v.write_to_slice_unaligned(&mut w);
    b32(&w)
}
fn ld64(b: &[u8]) -> pn::u64x4 {
    let w = w64(b);
    pn::u64x4::new(w[0], w[1], w[2], w[3])
}
fn st64(v: pn::u64x4) -> Vec<u8> {
    let mut w = [0u64; 4];
    v.write_to_slice_unaligned(&mut w);
    b64(&w)
}
fn ld4(b: &[u8]) -> pn::u32x4x4 {
    pn::u32x4x4::from((ld32(&b[..16]), ld32(&b[16..32]), ld32(&b[32..48]), ld32(&b[48..])))
}
fn st4(v: pn::u32x4x4) -> Vec<u8> {
    let (a, b, c, d) = v.into_parts();
    let mut o = st32(a);
    o.extend(st32(b));
    o.extend(st32(c));
    o.extend(st32(d));
    o
}

/// the 15 set partitions of four lanes, as class index per lane
const LANE_PARTITIONS: [[usize; 4]; 15] = [
    [0, 0, 0, 0], [0, 0, 0, 1], [0, 0, 1, 0], [0, 1, 0, 0], [0, 1, 1, 1], [0, 0, 1, 1], [0, 1, 0, 1], [0, 1, 1, 0],
    [0, 0, 1, 2], [0, 1, 0, 2], [0, 1, 2, 0], [0, 1, 1, 2], [0, 1, 2, 1], [0, 1, 2, 2], [0, 1, 2, 3],
];

macro_rules! vec4_ops {
    ($out:ident, $ty:expr, $V:ty, $ld:ident, $st:ident, $wfn:ident, $bfn:ident, $word:ty, $bits:expr, $ops:expr, $amounts:expr) => {
        for (a, b) in $ops.iter() {
            rec($out, $ty, "add", a, b, 0, &mut || $st($ld(a) + $ld(b)));
            rec($out, $ty, "add_assign", a, b, 0, &mut || { let mut x = $ld(a); x += $ld(b); $st(x) });
            rec($out, $ty, "xor", a, b, 0, &mut || $st($ld(a) ^ $ld(b)));
            rec($out, $ty, "xor_assign", a, b, 0, &mut || { let mut x = $ld(a); x ^= $ld(b); $st(x) });
            rec($out, $ty, "or", a, b, 0, &mut || $st($ld(a) | $ld(b)));
            rec($out, $ty, "and", a, b, 0, &mut || $st($ld(a) & $ld(b)));
            rec($out, $ty, "from_slice", a, &[], 0, &mut || $st(<$V>::from_slice_unaligned(&$wfn(a))));
            rec($out, $ty, "splat", &a[..($bits / 8)], &[], 0, &mut || $st(<$V>::splat($wfn(a)[0])));
            for i in 0..4usize {
                rec($out, $ty, "extract", a, &[], i as i64, &mut || $bfn(&[$ld(a).extract(i)]));
                rec($out, $ty, "replace", a, &b[..($bits / 8)], i as i64, &mut || $st($ld(a).replace(i, $wfn(b)[0])));
                rec($out, $ty, "rotate_words_right", a, &[], i as i64, &mut || $st($ld(a).rotate_words_right(i as u32)));
            }
            for r in 1..($bits as u32) {
                if !$amounts.contains(&r) && !(a == &$ops[0].0 || a == &$ops[$ops.len() - 1].0) {
                    continue;
                }
                rec($out, $ty, "splat_rotate_right", a, &[], r as i64, &mut || $st($ld(a).splat_rotate_right(r)));
            }
            // per-lane rotation amounts taken from b (reduced to 1..bits-1)
            let am: Vec<$word> = $wfn(b).iter().map(|x| 1 + (x % ($bits as $word - 1))).collect();
            let amb = $bfn(&am);
            rec($out, $ty, "rotate_right_v", a, &amb, 0, &mut || { let mut x = $ld(a); let r = x.rotate_right(<$V>::from_slice_unaligned(&am)); $st(r) });
        }
        // per-lane amounts under every equality pattern between the four lanes (the 15 set partitions of {0,1,2,3}):
        // random amounts make two lanes equal with probability 1/bits only, and never in a chosen arrangement
        for (pi, part) in LANE_PARTITIONS.iter().enumerate() {
            for rep in 0..2usize {
                let (a, b) = &$ops[(pi + 3 * rep) % $ops.len()];
                let base: Vec<$word> = $wfn(b).iter().enumerate().map(|(i, x)| 1 + ((x.wrapping_add((7 * i + 13 * rep) as $word)) % ($bits as $word - 1))).collect();
                // make the class representatives pairwise distinct
                let mut reps: Vec<$word> = vec![];
                for i in 0..4usize {
                    let mut v = base[i];
                    while reps.contains(&v) {
                        v = 1 + (v % ($bits as $word - 1));
                    }
                    reps.push(v);
                }
                let am: Vec<$word> = part.iter().map(|&cl| reps[cl]).collect();
                let amb = $bfn(&am);
                rec($out, $ty, "rotate_right_v", a, &amb, 0, &mut || { let mut x = $ld(a); let r = x.rotate_right(<$V>::from_slice_unaligned(&am)); $st(r) });
            }
        }
    };
}

pub fn drive_c19(out: &mut dyn std::io::Write, seed: u64, thorough: bool) {
    let mut rng = Rng::new(seed ^ 0xc19);
    let mk = |rng: &mut Rng, n: usize| -> Vec<(Vec<u8>, Vec<u8>)> {
        let mut v: Vec<(Vec<u8>, Vec<u8>)> = vec![];
        v.push(((0..n).map(|i| (i + 1) as u8).collect(), (0..n).map(|i| (0xf0 - i) as u8).collect()));
        v.push((vec![0xffu8; n], (0..n).map(|i| (i + 1) as u8).collect()));
        v.push((vec![0xffu8; n], vec![0xffu8; n]));
        v.push((vec![0u8; n], vec![0xffu8; n]));
        for bit in [0usize, 7, 31, 63, n * 8 - 1] {
            let mut a = vec![0u8; n];
            a[bit / 8] |= 1 << (bit % 8);
            v.push((a, rng.bytes(n)));
        }
        for _ in 0..(if thorough { 300 } else { 5 }) {
            v.push((rng.bytes(n), rng.bytes(n)));
        }
        // related operands (carry ripple): b = !a (sum all-ones), b = -a at 32 / 64 / 128-bit granularity (sum zero, the carry
        // runs through the whole word), small + negative small, a = b
        for &w in [4usize, 8, 16].iter() {
            let a = rng.bytes(n);
            let mut b = vec![];
            for ch in a.chunks(w) {
                let mut x = 0u128;
                for (i, &by) in ch.iter().enumerate() {
                    x |= (by as u128) << (8 * i);
                }
                let neg = if w == 16 { x.wrapping_neg() } else { ((1u128 << (8 * w)) - x) & ((1u128 << (8 * w)) - 1) };
                b.extend_from_slice(&neg.to_le_bytes()[..w]);
            }
            v.push((a, b));
        }
        let a = rng.bytes(n);
        v.push((a.clone(), a.iter().map(|x| !x).collect()));
        v.push((a.clone(), a));
        // operand STRUCTURE: the four quarters of each operand under every equality pattern (15 set partitions); a and b use
        // the same pattern with unrelated values (broadcast detection, "first equals last" and similar shortcuts)
        for part in LANE_PARTITIONS.iter() {
            let q = n / 4;
            let va: Vec<Vec<u8>> = (0..4).map(|_| rng.bytes(q)).collect();
            let vb: Vec<Vec<u8>> = (0..4).map(|_| rng.bytes(q)).collect();
            let a: Vec<u8> = part.iter().flat_map(|&c| va[c].clone()).collect();
            let b: Vec<u8> = part.iter().flat_map(|&c| vb[c].clone()).collect();
            v.push((a, b));
        }
        let mut small = vec![0u8; n];
        let mut negsmall = vec![0xffu8; n];
        for i in (0..n).step_by(16) {
            small[i] = 10;
            negsmall[i] = 0xfa; // -6 as a 128-bit number (also -6 in the low 32 / 64-bit word, all-ones elsewhere)
        }
        v.push((small, negsmall));
        v
    };
    let o16 = mk(&mut rng, 16);
    let o32 = mk(&mut rng, 32);
    let o64 = mk(&mut rng, 64);
    let am32: Vec<u32> = if thorough { (1..32).collect() } else { vec![1, 7, 8, 16, 25, 31] };
    let am64: Vec<u32> = if thorough { (1..64).collect() } else { vec![1, 11, 32, 33, 63] };
    let am128: Vec<u32> = if thorough { (1..128).collect() } else { vec![1, 7, 32, 64, 65, 127] };
    vec4_ops!(out, "n_u32x4", pn::u32x4, ld32, st32, w32, b32, u32, 32, o16, am32);
    vec4_ops!(out, "n_u64x4", pn::u64x4, ld64, st64, w64, b64, u64, 64, o32, am64);
    // ---- u128x1
    for (a, b) in o16.iter() {
        let ld = |x: &[u8]| pn::u128x1::new(w128(x)[0]);
        let st = |v: pn::u128x1| b128(&[v.into_inner()]);
        rec(out, "n_u128x1", "add_assign", a, b, 0, &mut || { let mut x = ld(a); x += ld(b); st(x) });
        rec(out, "n_u128x1", "xor_assign", a, b, 0, &mut || { let mut x = ld(a); x ^= ld(b); st(x) });
        rec(out, "n_u128x1", "xor", a, b, 0, &mut || st(ld(a) ^ ld(b)));
        rec(out, "n_u128x1", "and", a, b, 0, &mut || st(ld(a) & ld(b)));
        rec(out, "n_u128x1", "not", a, &[], 0, &mut || st(!ld(a)));
        rec(out, "n_u128x1", "andnot", a, b, 0, &mut || st(ld(a).andnot(ld(b))));
        rec(out, "n_u128x1", "load", a, &[], 0, &mut || st(pn::u128x1::load(&w128(a))));
        rec(out, "n_u128x1", "xor_store", a, b, 0, &mut || { let mut xs = w128(b); ld(a).xor_store(&mut xs); b128(&xs) });
        rec(out, "n_u128x1", "extract", a, &[], 0, &mut || b128(&[ld(a).extract(0)]));
        rec(out, "n_u128x1", "swap1", a, &[], 0, &mut || st(ld(a).swap1()));
        rec(out, "n_u128x1", "swap2", a, &[], 0, &mut || st(ld(a).swap2()));
        rec(out, "n_u128x1", "swap4", a, &[], 0, &mut || st(ld(a).swap4()));
        rec(out, "n_u128x1", "swap8", a, &[], 0, &mut || st(ld(a).swap8()));
        rec(out, "n_u128x1", "swap16", a, &[], 0, &mut || st(ld(a).swap16()));
        rec(out, "n_u128x1", "swap32", a, &[], 0, &mut || st(ld(a).swap32()));
        rec(out, "n_u128x1", "swap64", a, &[], 0, &mut || st(ld(a).swap64()));
        for r in 1..128u32 {
            if !am128.contains(&r) && !(a == &o16[0].0 || a == &o16[o16.len() - 1].0) {
                continue;
            }
            rec(out, "n_u128x1", "rotate_right", a, &[], r as i64, &mut || { let mut x = ld(a); x.rotate_right(r as u128); st(x) });
        }
    }
    // ---- u128x2
    for (a, b) in o32.iter() {
        let ld = |x: &[u8]| { let w = w128(x); pn::u128x2::new(w[0], w[1]) };
        let st = |v: pn::u128x2| b128(&[v.extract(0), v.extract(1)]);
        rec(out, "n_u128x2", "add_assign", a, b, 0, &mut || { let mut x = ld(a); x += ld(b); st(x) });
        rec(out, "n_u128x2", "xor_assign", a, b, 0, &mut || { let mut x = ld(a); x ^= ld(b); st(x) });
        rec(out, "n_u128x2", "and", a, b, 0, &mut || st(ld(a) & ld(b)));
        rec(out, "n_u128x2", "or", a, b, 0, &mut || st(ld(a) | ld(b)));
        rec(out, "n_u128x2", "not", a, &[], 0, &mut || st(!ld(a)));
        rec(out, "n_u128x2", "andnot", a, b, 0, &mut || st(ld(a).andnot(ld(b))));
        rec(out, "n_u128x2", "load", a, &[], 0, &mut || st(pn::u128x2::load(&w128(a))));
        rec(out, "n_u128x2", "xor_store", a, b, 0, &mut || { let mut xs = w128(b); ld(a).xor_store(&mut xs); b128(&xs) });
        for i in 0..2u32 {
            rec(out, "n_u128x2", "extract", a, &[], i as i64, &mut || b128(&[ld(a).extract(i)]));
        }
        for r in 1..128u32 {
            if !am128.contains(&r) && !(a == &o32[0].0 || a == &o32[o32.len() - 1].0) {
                continue;
            }
            rec(out, "n_u128x2", "rotate_right", a, &[], r as i64, &mut || { let mut x = ld(a); x.rotate_right(r as u128); st(x) });
        }
    }
    // ---- u32x4x4
    for (a, b) in o64.iter() {
        rec(out, "n_u32x4x4", "add", a, b, 0, &mut || st4(ld4(a) + ld4(b)));
        rec(out, "n_u32x4x4", "add_assign", a, b, 0, &mut || { let mut x = ld4(a); x += ld4(b); st4(x) });
        rec(out, "n_u32x4x4", "xor", a, b, 0, &mut || st4(ld4(a) ^ ld4(b)));
        rec(out, "n_u32x4x4", "xor_assign", a, b, 0, &mut || { let mut x = ld4(a); x ^= ld4(b); st4(x) });
        rec(out, "n_u32x4x4", "or", a, b, 0, &mut || st4(ld4(a) | ld4(b)));
        rec(out, "n_u32x4x4", "and", a, b, 0, &mut || st4(ld4(a) & ld4(b)));
        rec(out, "n_u32x4x4", "from_parts", a, &[], 0, &mut || st4(ld4(a)));
        rec(out, "n_u32x4x4", "splat", &a[..16], &[], 0, &mut || st4(pn::u32x4x4::splat(ld32(&a[..16]))));
        for i in 0..4u32 {
            rec(out, "n_u32x4x4", "rotate_words_right", a, &[], i as i64, &mut || st4(ld4(a).rotate_words_right(i)));
        }
        for r in 1..32u32 {
            if !am32.contains(&r) && !(a == &o64[0].0 || a == &o64[o64.len() - 1].0) {
                continue;
            }
            rec(out, "n_u32x4x4", "splat_rotate_right", a, &[], r as i64, &mut || st4(ld4(a).splat_rotate_right(r)));
        }
    }
}
