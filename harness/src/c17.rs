//! C17: length counters at word boundaries. Fast-forwarded counters (hook H2) crossed by the real increment code,
//! and (thorough tier) really streamed messages with a checkpoint (chaining value + counter) shortly before the boundary.
use crate::util::*;
use digest::generic_array::typenum::{U128, U32, U64};
use digest::Digest;

#[allow(clippy::too_many_arguments)]
fn emit(out: &mut dyn std::io::Write, ev: &str, alg: &str, n: usize, base: u128, nl: usize, chain: Option<&[u8]>, first: bool, fed: u128, rest: &[u8],
        r: Result<Vec<u8>, String>, tag: &str) {
    emit_pos(out, ev, alg, n, base, nl, chain, first, fed, 0, rest, r, tag)
}
#[allow(clippy::too_many_arguments)]
fn emit_pos(out: &mut dyn std::io::Write, ev: &str, alg: &str, n: usize, base: u128, nl: usize, chain: Option<&[u8]>, first: bool, fed: u128, pos: usize,
            rest: &[u8], r: Result<Vec<u8>, String>, tag: &str) {
    let (res, o) = match r {
        Ok(o) => ("ok".to_string(), o),
        Err(p) => (format!("panic:{}", sanitize(&p)), vec![]),
    };
    let mut e = Ev::new(0, ev).s("alg", alg).i("n", n as i64).s("tag", tag).limbs("base", base, nl).limbs("fed", fed, 8).i("pos", pos as i64).b("first", first);
    e = match chain {
        Some(c) => e.bytes("chain", c),
        None => e.bytes("chain", &[]),
    };
    e.bytes("rest", rest).bytes("out", &o).s("res", &res).emit(out);
}

macro_rules! blake_ff {
    ($out:ident, $T:ty, $alg:expr, $word:ty, $bits:expr, $nl:expr, $base:expr, $rest:expr, $tag:expr) => {{
        let base: u128 = $base;
        let rest: &[u8] = $rest;
        let r = guarded(|| {
            let mut h = <$T>::default();
            h.verif_set_counter(base as $word, (base >> $bits) as $word);
            Digest::update(&mut h, rest);
            // every other event finalizes a CLONE taken at that point (the copy must carry the whole counter)
            let h = if rest.len() % 2 == 0 { h.clone() } else { h };
            Digest::finalize(h).to_vec()
        });
        emit($out, "ff", $alg, <$T as Digest>::output_size(), base, $nl, None, false, 0, rest, r, $tag);
    }};
}
macro_rules! groestl_ff {
    ($out:ident, $T:ty, $alg:expr, $base:expr, $rest:expr, $tag:expr) => {{
        let base: u64 = $base;
        let rest: &[u8] = $rest;
        let r = guarded(|| {
            let mut h = <$T>::default();
            h.verif_set_counter(base);
            Digest::update(&mut h, rest);
            // every other event finalizes a CLONE taken at that point (the copy must carry the whole counter)
            let h = if rest.len() % 2 == 0 { h.clone() } else { h };
            Digest::finalize(h).to_vec()
        });
        emit($out, "ff", $alg, <$T as Digest>::output_size(), base as u128, 4, None, false, 0, rest, r, $tag);
    }};
}
macro_rules! jh_ff {
    ($out:ident, $T:ty, $alg:expr, $base:expr, $rest:expr, $tag:expr) => {{
        let base: u64 = $base;
        let rest: &[u8] = $rest;
        let r = guarded(|| {
            let mut h = <$T>::default();
            h.verif_set_counter(base as usize);
            Digest::update(&mut h, rest);
            // every other event finalizes a CLONE taken at that point (the copy must carry the whole counter)
            let h = if rest.len() % 2 == 0 { h.clone() } else { h };
            Digest::finalize(h).to_vec()
        });
        emit($out, "ff", $alg, <$T as Digest>::output_size(), base as u128, 8, None, false, 0, rest, r, $tag);
    }};
}
macro_rules! skein_ff {
    ($out:ident, $T:ty, $alg:expr, $base:expr, $rest:expr, $tag:expr) => {{
        let base: u64 = $base;
        let rest: &[u8] = $rest;
        let r = guarded(|| {
            let mut h = <$T>::default();
            h.verif_set_counter(base);
            Digest::update(&mut h, rest);
            // every other event finalizes a CLONE taken at that point (the copy must carry the whole counter)
            let h = if rest.len() % 2 == 0 { h.clone() } else { h };
            Digest::finalize(h).to_vec()
        });
        emit($out, "ff", $alg, <$T as Digest>::output_size(), base as u128, 4, None, base == 0, 0, rest, r, $tag);
    }};
}

/// reuse after a long message: the counter is fast-forwarded to `base` (a word boundary or far beyond), a few bytes are
/// absorbed, the instance is reset through one of the public ways, and then hashes `msg` - which must give the plain digest
/// of `msg` (an `ff` event with base 0)
macro_rules! ff_reset {
    ($out:ident, $T:ty, $alg:expr, $set:expr, $nl:expr, $pending:expr, $how:expr, $msg:expr, $tag:expr, $first:expr) => {{
        let msg: &[u8] = $msg;
        let pending: Vec<u8> = vec![0x5au8; $pending];
        let r = guarded(|| {
            let mut h = <$T>::default();
            $set(&mut h);
            Digest::update(&mut h, &pending);
            match $how % 4 {
                0 => Digest::reset(&mut h),
                1 => {
                    let _ = Digest::finalize_reset(&mut h);
                }
                2 => {
                    let _ = digest::FixedOutput::finalize_fixed_reset(&mut h);
                }
                _ => {
                    let mut o = digest::generic_array::GenericArray::default();
                    digest::FixedOutputDirty::finalize_into_dirty(&mut h, &mut o);
                    digest::Reset::reset(&mut h);
                }
            }
            Digest::update(&mut h, msg);
            Digest::finalize(h).to_vec()
        });
        emit($out, "ff", $alg, <$T as Digest>::output_size(), 0, $nl, None, $first, 0, msg, r, $tag);
    }};
}

const TOP_TAGS: [&str; 10] = ["2^57", "2^58", "2^63", "2^64-9", "2^64-1024", "2^64-4096", "2^127", "2^128-8192", "control", "2^40"];

fn rests(rng: &mut Rng, b: usize, k: usize, thorough: bool) -> Vec<Vec<u8>> {
    // k blocks reach the boundary; j more cross it; then a partial block
    let mut v = vec![];
    let js: &[usize] = if thorough { &[0, 1, 2] } else { &[0, 1] };
    let parts: Vec<usize> = if thorough { vec![0, 1, b - 9, b - 8, b - 1, b / 2, b - 17, b - 16] } else { vec![0, b - 9, b - 8, 7, b - 1, b - 17, b - 16] };
    for &j in js {
        for (pi, &p) in parts.iter().enumerate() {
            if !thorough && (pi + j + k) % 2 == 1 {
                continue;
            }
            v.push(rng.bytes((k + j) * b + p));
        }
    }
    v
}

pub fn drive_c17(out: &mut dyn std::io::Write, seed: u64, thorough: bool, family: &str) {
    let mut rng = Rng::new(seed ^ 0xc17);
    let ks: Vec<usize> = if thorough { vec![0, 1, 2, 3] } else { vec![0, 1, 2] };
    // reuse of an instance whose counter sits exactly on / just beyond a word boundary
    for how in 0..4usize {
        for (pi, pending) in [0usize, 5, 70].iter().enumerate() {
            if !thorough && (how + pi + seed as usize) % 2 == 1 {
                continue;
            }
            let msg = rng.bytes(3 + 40 * how + pi);
            match family {
                "blake" => {
                    ff_reset!(out, blake_hash::Blake256, "Blake256", |h: &mut blake_hash::Blake256| h.verif_set_counter(0, 1 + how as u32), 4, *pending, how, &msg, "reset-after-k*2^32", false);
                    ff_reset!(out, blake_hash::Blake224, "Blake224", |h: &mut blake_hash::Blake224| h.verif_set_counter(0, 3), 4, *pending, how, &msg, "reset-after-k*2^32", false);
                    ff_reset!(out, blake_hash::Blake512, "Blake512", |h: &mut blake_hash::Blake512| h.verif_set_counter(0, 1), 8, *pending, how, &msg, "reset-after-2^64", false);
                    ff_reset!(out, blake_hash::Blake384, "Blake384", |h: &mut blake_hash::Blake384| h.verif_set_counter(1024, 2), 8, *pending, how, &msg, "reset-after-2^65", false);
                }
                "groestl" => {
                    ff_reset!(out, groestl_aesni::Groestl256, "Groestl256", |h: &mut groestl_aesni::Groestl256| h.verif_set_counter(1u64 << 32), 4, *pending, how, &msg, "reset-after-2^32", false);
                    ff_reset!(out, groestl_aesni::Groestl384, "Groestl384", |h: &mut groestl_aesni::Groestl384| h.verif_set_counter((1u64 << 32) + 1), 4, *pending, how, &msg, "reset-after-2^32", false);
                }
                "jh" => {
                    ff_reset!(out, jh_x86_64::Jh256, "Jh256", |h: &mut jh_x86_64::Jh256| h.verif_set_counter(1usize << 32), 8, *pending, how, &msg, "reset-after-2^32", false);
                    ff_reset!(out, jh_x86_64::Jh384, "Jh384", |h: &mut jh_x86_64::Jh384| h.verif_set_counter(1usize << 29), 8, *pending, how, &msg, "reset-after-2^29", false);
                }
                _ => {
                    ff_reset!(out, skein_hash::Skein256<U32>, "Skein256", |h: &mut skein_hash::Skein256<U32>| h.verif_set_counter(1u64 << 32), 4, *pending, how, &msg, "reset-after-2^32", true);
                    ff_reset!(out, skein_hash::Skein1024<U128>, "Skein1024", |h: &mut skein_hash::Skein1024<U128>| h.verif_set_counter((1u64 << 32) + 128), 4, *pending, how, &msg, "reset-after-2^32", true);
                }
            }
        }
    }
    if family == "blake" {
        for &k in ks.iter() {
            // BLAKE-224/256: 2^32-bit low-word carry; also with a non-zero high word, and far below (control)
            for (x, tag) in [(1u128 << 32, "2^32"), (7u128 << 32, "7*2^32"), (1u128 << 40, "control"), (1u128 << 63, "2^63"), ((1u128 << 64) - 4096, "2^64-4096")] {
                if !thorough && TOP_TAGS.contains(&tag) && k != (seed as usize) % 3 {
                    continue; // quick tier: the top-of-range starts with one of the three distances to the boundary
                }
                let base = x - (k as u128) * 512;
                for r in rests(&mut rng, 64, k, thorough) {
                    blake_ff!(out, blake_hash::Blake256, "Blake256", u32, 32, 4, base, &r, tag);
                    blake_ff!(out, blake_hash::Blake224, "Blake224", u32, 32, 4, base, &r, tag);
                }
            }
            // BLAKE-384/512: 2^64-bit low-word carry
            for (x, tag) in [(1u128 << 64, "2^64"), (3u128 << 64, "3*2^64"), (1u128 << 32, "control"), (1u128 << 127, "2^127"), (u128::MAX - 8191, "2^128-8192")] {
                if !thorough && TOP_TAGS.contains(&tag) && k != (seed as usize) % 3 {
                    continue; // quick tier: the top-of-range starts with one of the three distances to the boundary
                }
                let base = x - (k as u128) * 1024;
                for r in rests(&mut rng, 128, k, thorough) {
                    blake_ff!(out, blake_hash::Blake512, "Blake512", u64, 64, 8, base, &r, tag);
                    blake_ff!(out, blake_hash::Blake384, "Blake384", u64, 64, 8, base, &r, tag);
                }
            }
        }
    }
    if family == "groestl" {
        for &k in ks.iter() {
            // word boundaries of the block counter, and the top of its range (anything derived from it must not overflow either)
            for (x, tag) in [(1u64 << 8, "2^8"), (1u64 << 16, "2^16"), (1u64 << 32, "2^32"), (1u64 << 40, "2^40"), (1u64 << 57, "2^57"), (1u64 << 58, "2^58"),
                             (1u64 << 63, "2^63"), (u64::MAX - 8, "2^64-9")] {
                if !thorough && TOP_TAGS.contains(&tag) && k != (seed as usize) % 3 {
                    continue; // quick tier: the top-of-range starts with one of the three distances to the boundary
                }
                let base = x - k as u64;
                for r in rests(&mut rng, 64, k, false) {
                    groestl_ff!(out, groestl_aesni::Groestl256, "Groestl256", base, &r, tag);
                    groestl_ff!(out, groestl_aesni::Groestl224, "Groestl224", base, &r, tag);
                }
                for r in rests(&mut rng, 128, k, false) {
                    groestl_ff!(out, groestl_aesni::Groestl512, "Groestl512", base, &r, tag);
                    groestl_ff!(out, groestl_aesni::Groestl384, "Groestl384", base, &r, tag);
                }
            }
        }
    }
    if family == "jh" {
        for &k in ks.iter() {
            for (x, tag) in [(1u64 << 29, "2^32bits"), (1u64 << 32, "2^32bytes"), ((1u64 << 61) - 1024, "near-2^61")] {
                let base = x - 64 * k as u64;
                for (ri, r) in rests(&mut rng, 64, k, false).iter().enumerate() {
                    match ri % 4 {
                        0 => jh_ff!(out, jh_x86_64::Jh256, "Jh256", base, r, tag),
                        1 => jh_ff!(out, jh_x86_64::Jh224, "Jh224", base, r, tag),
                        2 => jh_ff!(out, jh_x86_64::Jh512, "Jh512", base, r, tag),
                        _ => jh_ff!(out, jh_x86_64::Jh384, "Jh384", base, r, tag),
                    }
                }
            }
        }
    }
    if family == "skein" {
        for &k in ks.iter() {
            for (x, tag) in [(1u64 << 32, "2^32"), (1u64 << 40, "2^40"), (0u64, "zero"), (1u64 << 63, "2^63"), (u64::MAX - 1023, "2^64-1024")] {
                if !thorough && TOP_TAGS.contains(&tag) && k != (seed as usize) % 3 {
                    continue; // quick tier: the top-of-range starts with one of the three distances to the boundary
                }
                for (b, which) in [(32usize, 0), (64, 1), (128, 2)] {
                    if x == 0 && k > 0 {
                        continue;
                    }
                    let base = x - (b * k) as u64;
                    for r in rests(&mut rng, b, k, false) {
                        match which {
                            0 => skein_ff!(out, skein_hash::Skein256<U32>, "Skein256", base, &r, tag),
                            1 => skein_ff!(out, skein_hash::Skein512<U64>, "Skein512", base, &r, tag),
                            _ => skein_ff!(out, skein_hash::Skein1024<U128>, "Skein1024", base, &r, tag),
                        }
                    }
                }
            }
        }
    }
}

/// Really stream `total` bytes, take a checkpoint (chaining value, counter, buffered bytes) `before` bytes before the end,
/// then feed the remaining bytes and finalize.
macro_rules! stream_one {
    ($out:ident, $T:ty, $alg:expr, $total:expr, $before:expr, $counter:expr, $nl:expr, $chainbytes:expr, $first:expr, $tag:expr) => {{
        let total: u64 = $total;
        let before: u64 = $before;
        let chunk: Vec<u8> = (0..(1usize << 20)).map(|i| (i * 131 + 7) as u8).collect();
        let mut h = <$T>::default();
        let mut fed: u64 = 0;
        let mut tailbuf: Vec<u8> = vec![];
        let stop = total - before;
        while fed < stop {
            let n = std::cmp::min(chunk.len() as u64, stop - fed) as usize;
            Digest::update(&mut h, &chunk[..n]);
            // remember the last 256 bytes fed (the lazily buffered ones must be replayed by the specification)
            tailbuf.extend_from_slice(&chunk[..n]);
            if tailbuf.len() > 256 {
                let cut = tailbuf.len() - 256;
                tailbuf.drain(..cut);
            }
            fed += n as u64;
        }
        let pos = h.verif_buffer_pos();
        let counter: u128 = $counter(&h);
        let chain: Vec<u8> = $chainbytes(&h);
        let first: bool = $first(&h);
        let mut rest: Vec<u8> = tailbuf[tailbuf.len() - pos..].to_vec();
        let more: Vec<u8> = (0..before as usize).map(|i| (i * 29 + 1) as u8).collect();
        rest.extend_from_slice(&more);
        let r = guarded(|| {
            Digest::update(&mut h, &more);
            Digest::finalize(h).to_vec()
        });
        emit_pos($out, "stream", $alg, <$T as Digest>::output_size(), counter, $nl, Some(&chain), first, fed as u128 - pos as u128, pos, &rest, r, $tag);
    }};
}

pub fn drive_c17_stream(out: &mut dyn std::io::Write, which: &str) {
    let be32 = |w: [u32; 8]| -> Vec<u8> { w.iter().flat_map(|x| x.to_be_bytes()).collect() };
    match which {
        "blake256" => stream_one!(out, blake_hash::Blake256, "Blake256", (1u64 << 29) + 200, 500, |h: &blake_hash::Blake256| { let t = h.verif_counter(); (t.0 as u128) | ((t.1 as u128) << 32) }, 4,
            |h: &blake_hash::Blake256| be32(h.verif_chain()), |_h: &blake_hash::Blake256| false, "512MiB"),
        "blake224" => stream_one!(out, blake_hash::Blake224, "Blake224", (1u64 << 29) + 64, 333, |h: &blake_hash::Blake224| { let t = h.verif_counter(); (t.0 as u128) | ((t.1 as u128) << 32) }, 4,
            |h: &blake_hash::Blake224| be32(h.verif_chain()), |_h: &blake_hash::Blake224| false, "512MiB"),
        "jh256" => stream_one!(out, jh_x86_64::Jh256, "Jh256", (1u64 << 29) + 130, 400, |h: &jh_x86_64::Jh256| h.verif_counter() as u128, 8,
            |h: &jh_x86_64::Jh256| h.verif_chain().to_vec(), |_h: &jh_x86_64::Jh256| false, "512MiB"),
        "skein512" => stream_one!(out, skein_hash::Skein512<U64>, "Skein512", (1u64 << 32) + 100, 300, |h: &skein_hash::Skein512<U64>| h.verif_counter() as u128, 4,
            |h: &skein_hash::Skein512<U64>| h.verif_chain().to_vec(), |h: &skein_hash::Skein512<U64>| h.verif_first(), "4GiB"),
        "skein256" => stream_one!(out, skein_hash::Skein256<U32>, "Skein256", (1u64 << 32) + 33, 200, |h: &skein_hash::Skein256<U32>| h.verif_counter() as u128, 4,
            |h: &skein_hash::Skein256<U32>| h.verif_chain().to_vec(), |h: &skein_hash::Skein256<U32>| h.verif_first(), "4GiB"),
        _ => panic!("harness: stream target"),
    }
}

/// One `update` call of 2^32 + extra bytes (after a `prefix`-byte update), against the same message fed in < 1 GiB pieces:
/// the per-call arithmetic on `data.len()` (block counts, bit counts) must not depend on how the message is cut. The one-call
/// instance is checkpointed (chaining value, counter, buffered bytes) like a streamed one, so the specification recomputes its
/// digest from the checkpoint and the counter law (counter = amount fed) is checked; the chunk-fed instance supplies the
/// reference chaining value / counter / digest that must be identical.
macro_rules! big_one {
    ($out:ident, $T:ty, $alg:expr, $prefix:expr, $extra:expr, $counter:expr, $nl:expr, $chainbytes:expr, $first:expr, $ev:expr, $tag:expr) => {{
        let prefix: usize = $prefix;
        let big: usize = (1usize << 32) + 1024 + $extra; // more than 2^26 whole blocks of every block size in one call
        let zeros: Vec<u8> = vec![0u8; big]; // never written: backed by the kernel's shared zero page
        let pre: Vec<u8> = (0..prefix).map(|i| (i * 3 + 1) as u8).collect();
        let more: Vec<u8> = (0..77usize).map(|i| (i * 29 + 1) as u8).collect();
        let run = |onecall: bool| {
            guarded(|| {
                let mut h = <$T>::default();
                Digest::update(&mut h, &pre);
                if onecall {
                    Digest::update(&mut h, &zeros[..]);
                } else {
                    let step = (1usize << 30) - 24;
                    let mut off = 0usize;
                    while off < big {
                        let n = std::cmp::min(step, big - off);
                        Digest::update(&mut h, &zeros[off..off + n]);
                        off += n;
                    }
                }
                let pos = h.verif_buffer_pos();
                let counter: u128 = $counter(&h);
                let chain: Vec<u8> = $chainbytes(&h);
                let first: bool = $first(&h);
                Digest::update(&mut h, &more);
                (pos, counter, chain, first, Digest::finalize(h).to_vec())
            })
        };
        let (a, b) = std::thread::scope(|s| {
            let ta = s.spawn(|| run(true));
            let tb = s.spawn(|| run(false));
            (ta.join().unwrap_or_else(|_| Err("thread".to_string())), tb.join().unwrap_or_else(|_| Err("thread".to_string())))
        });
        let n = <$T as Digest>::output_size();
        let mut e = Ev::new(0, $ev).s("alg", $alg).i("n", n as i64).s("tag", $tag);
        match (a, b) {
            (Ok((pos, counter, chain, first, o)), Ok((pos2, counter2, chain2, _f2, o2))) => {
                let mut rest = vec![0u8; pos];
                rest.extend_from_slice(&more);
                e = e.limbs("base", counter, $nl).limbs("fed", (prefix + big - pos) as u128, 8).i("pos", pos as i64).b("first", first)
                    .bytes("chain", &chain).bytes("rest", &rest).bytes("out", &o)
                    .limbs("base_ref", counter2, $nl).i("pos_ref", pos2 as i64).bytes("chain_ref", &chain2).bytes("out_ref", &o2).s("res", "ok");
            }
            (a, b) => {
                let msg = format!("panic:one-call {:?} chunks {:?}", a.err(), b.err());
                e = e.limbs("base", 0, $nl).limbs("fed", 0, 8).i("pos", 0).b("first", false).bytes("chain", &[]).bytes("rest", &[]).bytes("out", &[])
                    .limbs("base_ref", 0, $nl).i("pos_ref", 0).bytes("chain_ref", &[]).bytes("out_ref", &[]).s("res", &sanitize(&msg));
            }
        }
        e.emit($out);
    }};
}

pub fn drive_c17_big(out: &mut dyn std::io::Write, which: &str) {
    let be32 = |w: [u32; 8]| -> Vec<u8> { w.iter().flat_map(|x| x.to_be_bytes()).collect() };
    let be64 = |w: [u64; 8]| -> Vec<u8> { w.iter().flat_map(|x| x.to_be_bytes()).collect() };
    match which {
        "blake256" => big_one!(out, blake_hash::Blake256, "Blake256", 0, 69, |h: &blake_hash::Blake256| { let t = h.verif_counter(); (t.0 as u128) | ((t.1 as u128) << 32) }, 4,
            |h: &blake_hash::Blake256| be32(h.verif_chain()), |_h: &blake_hash::Blake256| false, "stream", "4GiB-one-call"),
        "blake224" => big_one!(out, blake_hash::Blake224, "Blake224", 63, 5, |h: &blake_hash::Blake224| { let t = h.verif_counter(); (t.0 as u128) | ((t.1 as u128) << 32) }, 4,
            |h: &blake_hash::Blake224| be32(h.verif_chain()), |_h: &blake_hash::Blake224| false, "stream", "4GiB-one-call"),
        "blake512" => big_one!(out, blake_hash::Blake512, "Blake512", 127, 130, |h: &blake_hash::Blake512| { let t = h.verif_counter(); (t.0 as u128) | ((t.1 as u128) << 64) }, 8,
            |h: &blake_hash::Blake512| be64(h.verif_chain()), |_h: &blake_hash::Blake512| false, "stream", "4GiB-one-call"),
        "blake384" => big_one!(out, blake_hash::Blake384, "Blake384", 1, 0, |h: &blake_hash::Blake384| { let t = h.verif_counter(); (t.0 as u128) | ((t.1 as u128) << 64) }, 8,
            |h: &blake_hash::Blake384| be64(h.verif_chain()), |_h: &blake_hash::Blake384| false, "stream", "4GiB-one-call"),
        "jh256" => big_one!(out, jh_x86_64::Jh256, "Jh256", 63, 69, |h: &jh_x86_64::Jh256| h.verif_counter() as u128, 8,
            |h: &jh_x86_64::Jh256| h.verif_chain().to_vec(), |_h: &jh_x86_64::Jh256| false, "stream", "4GiB-one-call"),
        "jh512" => big_one!(out, jh_x86_64::Jh512, "Jh512", 0, 1, |h: &jh_x86_64::Jh512| h.verif_counter() as u128, 8,
            |h: &jh_x86_64::Jh512| h.verif_chain().to_vec(), |_h: &jh_x86_64::Jh512| false, "stream", "4GiB-one-call"),
        "skein256" => big_one!(out, skein_hash::Skein256<U32>, "Skein256", 31, 33, |h: &skein_hash::Skein256<U32>| h.verif_counter() as u128, 4,
            |h: &skein_hash::Skein256<U32>| h.verif_chain().to_vec(), |h: &skein_hash::Skein256<U32>| h.verif_first(), "stream", "4GiB-one-call"),
        "skein512" => big_one!(out, skein_hash::Skein512<U64>, "Skein512", 0, 64, |h: &skein_hash::Skein512<U64>| h.verif_counter() as u128, 4,
            |h: &skein_hash::Skein512<U64>| h.verif_chain().to_vec(), |h: &skein_hash::Skein512<U64>| h.verif_first(), "stream", "4GiB-one-call"),
        "skein1024" => big_one!(out, skein_hash::Skein1024<U128>, "Skein1024", 127, 2, |h: &skein_hash::Skein1024<U128>| h.verif_counter() as u128, 4,
            |h: &skein_hash::Skein1024<U128>| h.verif_chain().to_vec(), |h: &skein_hash::Skein1024<U128>| h.verif_first(), "stream", "4GiB-one-call"),
        "groestl256" => big_one!(out, groestl_aesni::Groestl256, "Groestl256", 63, 69, |h: &groestl_aesni::Groestl256| h.verif_counter() as u128, 4,
            |_h: &groestl_aesni::Groestl256| Vec::<u8>::new(), |_h: &groestl_aesni::Groestl256| false, "big", "4GiB-one-call"),
        "groestl224" => big_one!(out, groestl_aesni::Groestl224, "Groestl224", 0, 64, |h: &groestl_aesni::Groestl224| h.verif_counter() as u128, 4,
            |_h: &groestl_aesni::Groestl224| Vec::<u8>::new(), |_h: &groestl_aesni::Groestl224| false, "big", "4GiB-one-call"),
        "groestl512" => big_one!(out, groestl_aesni::Groestl512, "Groestl512", 1, 127, |h: &groestl_aesni::Groestl512| h.verif_counter() as u128, 4,
            |_h: &groestl_aesni::Groestl512| Vec::<u8>::new(), |_h: &groestl_aesni::Groestl512| false, "big", "4GiB-one-call"),
        "groestl384" => big_one!(out, groestl_aesni::Groestl384, "Groestl384", 100, 3, |h: &groestl_aesni::Groestl384| h.verif_counter() as u128, 4,
            |_h: &groestl_aesni::Groestl384| Vec::<u8>::new(), |_h: &groestl_aesni::Groestl384| false, "big", "4GiB-one-call"),
        _ => panic!("harness: big target"),
    }
}
