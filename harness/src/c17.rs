//! C17: length counters at word boundaries. Fast-forwarded counters (hook H2) crossed by the real increment code,
//! and (thorough tier) really streamed messages with a checkpoint (chaining value + counter) shortly before the boundary.
use crate::util::*;
use digest::generic_array::typenum::{U128, U32, U64};
use digest::Digest;

#[allow(clippy::too_many_arguments)]
fn emit(out: &mut dyn std::io::Write, ev: &str, alg: &str, n: usize, base: u128, nl: usize, chain: Option<&[u8]>, first: bool, fed: u128, rest: &[u8],
        r: Result<Vec<u8>, String>, tag: &str) {
    emit_pos(out, ev, alg, n, base, nl, chain, first, fed, 0, rest, r, tag)
}
#[allow(clippy::too_many_arguments)]
fn emit_pos(out: &mut dyn std::io::Write, ev: &str, alg: &str, n: usize, base: u128, nl: usize, chain: Option<&[u8]>, first: bool, fed: u128, pos: usize,
            rest: &[u8], r: Result<Vec<u8>, String>, tag: &str) {
    let (res, o) = match r {
        Ok(o) => ("ok".to_string(), o),
        Err(p) => (format!("panic:{}", sanitize(&p)), vec![]),
    };
    let mut e = Ev::new(0, ev).s("alg", alg).i("n", n as i64).s("tag", tag).limbs("base", base, nl).limbs("fed", fed, 8).i("pos", pos as i64).b("first", first);
    e = match chain {
        Some(c) => e.bytes("chain", c),
        None => e.bytes("chain", &[]),
    };
    e.bytes("rest", rest).bytes("out", &o).s("res", &res).emit(out);
}

macro_rules! blake_ff {
    ($out:ident, $T:ty, $alg:expr, $word:ty, $bits:expr, $nl:expr, $base:expr, $rest:expr, $tag:expr) => {{
        let base: u128 = $base;
        let rest: &[u8] = $rest;
        let r = guarded(|| {
            let mut h = <$T>::default();
            h.verif_set_counter(base as $word, (base >> $bits) as $word);
            Digest::update(&mut h, rest);
            Digest::finalize(h).to_vec()
        });
        emit($out, "ff", $alg, <$T as Digest>::output_size(), base, $nl, None, false, 0, rest, r, $tag);
    }};
}
macro_rules! groestl_ff {
    ($out:ident, $T:ty, $alg:expr, $base:expr, $rest:expr, $tag:expr) => {{
        let base: u64 = $base;
        let rest: &[u8] = $rest;
        let r = guarded(|| {
            let mut h = <$T>::default();
            h.verif_set_counter(base);
            Digest::update(&mut h, rest);
            Digest::finalize(h).to_vec()
        });
        emit($out, "ff", $alg, <$T as Digest>::output_size(), base as u128, 4, None, false, 0, rest, r, $tag);
    }};
}
macro_rules! jh_ff {
    ($out:ident, $T:ty, $alg:expr, $base:expr, $rest:expr, $tag:expr) => {{
        let base: u64 = $base;
        let rest: &[u8] = $rest;
        let r = guarded(|| {
            let mut h = <$T>::default();
            h.verif_set_counter(base as usize);
            Digest::update(&mut h, rest);
            Digest::finalize(h).to_vec()
        });
        emit($out, "ff", $alg, <$T as Digest>::output_size(), base as u128, 8, None, false, 0, rest, r, $tag);
    }};
}
macro_rules! skein_ff {
    ($out:ident, $T:ty, $alg:expr, $base:expr, $rest:expr, $tag:expr) => {{
        let base: u64 = $base;
        let rest: &[u8] = $rest;
        let r = guarded(|| {
            let mut h = <$T>::default();
            h.verif_set_counter(base);
            Digest::update(&mut h, rest);
            Digest::finalize(h).to_vec()
        });
        emit($out, "ff", $alg, <$T as Digest>::output_size(), base as u128, 4, None, base == 0, 0, rest, r, $tag);
    }};
}

fn rests(rng: &mut Rng, b: usize, k: usize, thorough: bool) -> Vec<Vec<u8>> {
    // k blocks reach the boundary; j more cross it; then a partial block
    let mut v = vec![];
    let js: &[usize] = if thorough { &[0, 1, 2] } else { &[0, 1] };
    let parts: Vec<usize> = if thorough { vec![0, 1, b - 9, b - 8, b - 1, b / 2] } else { vec![0, b - 9, 7] };
    for &j in js {
        for (pi, &p) in parts.iter().enumerate() {
            if !thorough && (pi + j + k) % 2 == 1 {
                continue;
            }
            v.push(rng.bytes((k + j) * b + p));
        }
    }
    v
}

pub fn drive_c17(out: &mut dyn std::io::Write, seed: u64, thorough: bool, family: &str) {
    let mut rng = Rng::new(seed ^ 0xc17);
    let ks: Vec<usize> = if thorough { vec![0, 1, 2, 3] } else { vec![0, 1, 2] };
    if family == "blake" {
        for &k in ks.iter() {
            // BLAKE-224/256: 2^32-bit low-word carry; also with a non-zero high word, and far below (control)
            for (x, tag) in [(1u128 << 32, "2^32"), (7u128 << 32, "7*2^32"), (1u128 << 40, "control")] {
                let base = x - (k as u128) * 512;
                for r in rests(&mut rng, 64, k, thorough) {
                    blake_ff!(out, blake_hash::Blake256, "Blake256", u32, 32, 4, base, &r, tag);
                    blake_ff!(out, blake_hash::Blake224, "Blake224", u32, 32, 4, base, &r, tag);
                }
            }
            // BLAKE-384/512: 2^64-bit low-word carry
            for (x, tag) in [(1u128 << 64, "2^64"), (3u128 << 64, "3*2^64"), (1u128 << 32, "control")] {
                let base = x - (k as u128) * 1024;
                for r in rests(&mut rng, 128, k, thorough) {
                    blake_ff!(out, blake_hash::Blake512, "Blake512", u64, 64, 8, base, &r, tag);
                    blake_ff!(out, blake_hash::Blake384, "Blake384", u64, 64, 8, base, &r, tag);
                }
            }
        }
    }
    if family == "groestl" {
        for &k in ks.iter() {
            for (x, tag) in [(1u64 << 8, "2^8"), (1u64 << 16, "2^16"), (1u64 << 32, "2^32"), (1u64 << 40, "2^40")] {
                let base = x - k as u64;
                for r in rests(&mut rng, 64, k, false) {
                    groestl_ff!(out, groestl_aesni::Groestl256, "Groestl256", base, &r, tag);
                    groestl_ff!(out, groestl_aesni::Groestl224, "Groestl224", base, &r, tag);
                }
                for r in rests(&mut rng, 128, k, false) {
                    groestl_ff!(out, groestl_aesni::Groestl512, "Groestl512", base, &r, tag);
                    groestl_ff!(out, groestl_aesni::Groestl384, "Groestl384", base, &r, tag);
                }
            }
        }
    }
    if family == "jh" {
        for &k in ks.iter() {
            for (x, tag) in [(1u64 << 29, "2^32bits"), (1u64 << 32, "2^32bytes"), ((1u64 << 61) - 1024, "near-2^61")] {
                let base = x - 64 * k as u64;
                for (ri, r) in rests(&mut rng, 64, k, false).iter().enumerate() {
                    match ri % 4 {
                        0 => jh_ff!(out, jh_x86_64::Jh256, "Jh256", base, r, tag),
                        1 => jh_ff!(out, jh_x86_64::Jh224, "Jh224", base, r, tag),
                        2 => jh_ff!(out, jh_x86_64::Jh512, "Jh512", base, r, tag),
                        _ => jh_ff!(out, jh_x86_64::Jh384, "Jh384", base, r, tag),
                    }
                }
            }
        }
    }
    if family == "skein" {
        for &k in ks.iter() {
            for (x, tag) in [(1u64 << 32, "2^32"), (1u64 << 40, "2^40"), (0u64, "zero")] {
                for (b, which) in [(32usize, 0), (64, 1), (128, 2)] {
                    if x == 0 && k > 0 {
                        continue;
                    }
                    let base = x - (b * k) as u64;
                    for r in rests(&mut rng, b, k, false) {
                        match which {
                            0 => skein_ff!(out, skein_hash::Skein256<U32>, "Skein256", base, &r, tag),
                            1 => skein_ff!(out, skein_hash::Skein512<U64>, "Skein512", base, &r, tag),
                            _ => skein_ff!(out, skein_hash::Skein1024<U128>, "Skein1024", base, &r, tag),
                        }
                    }
                }
            }
        }
    }
}

/// Really stream `total` bytes, take a checkpoint (chaining value, counter, buffered bytes) `before` bytes before the end,
/// then feed the remaining bytes and finalize.
macro_rules! stream_one {
    ($out:ident, $T:ty, $alg:expr, $total:expr, $before:expr, $counter:expr, $nl:expr, $chainbytes:expr, $first:expr, $tag:expr) => {{
        let total: u64 = $total;
        let before: u64 = $before;
        let chunk: Vec<u8> = (0..(1usize << 20)).map(|i| (i * 131 + 7) as u8).collect();
        let mut h = <$T>::default();
        let mut fed: u64 = 0;
        let mut tailbuf: Vec<u8> = vec![];
        let stop = total - before;
        while fed < stop {
            let n = std::cmp::min(chunk.len() as u64, stop - fed) as usize;
            Digest::update(&mut h, &chunk[..n]);
            // remember the last 256 bytes fed (the lazily buffered ones must be replayed by the specification)
            tailbuf.extend_from_slice(&chunk[..n]);
            if tailbuf.len() > 256 {
                let cut = tailbuf.len() - 256;
                tailbuf.drain(..cut);
            }
            fed += n as u64;
        }
        let pos = h.verif_buffer_pos();
        let counter: u128 = $counter(&h);
        let chain: Vec<u8> = $chainbytes(&h);
        let first: bool = $first(&h);
        let mut rest: Vec<u8> = tailbuf[tailbuf.len() - pos..].to_vec();
        let more: Vec<u8> = (0..before as usize).map(|i| (i * 29 + 1) as u8).collect();
        rest.extend_from_slice(&more);
        let r = guarded(|| {
            Digest::update(&mut h, &more);
            Digest::finalize(h).to_vec()
        });
        emit_pos($out, "stream", $alg, <$T as Digest>::output_size(), counter, $nl, Some(&chain), first, fed as u128 - pos as u128, pos, &rest, r, $tag);
    }};
}

pub fn drive_c17_stream(out: &mut dyn std::io::Write, which: &str) {
    let be32 = |w: [u32; 8]| -> Vec<u8> { w.iter().flat_map(|x| x.to_be_bytes()).collect() };
    match which {
        "blake256" => stream_one!(out, blake_hash::Blake256, "Blake256", (1u64 << 29) + 200, 500, |h: &blake_hash::Blake256| { let t = h.verif_counter(); (t.0 as u128) | ((t.1 as u128) << 32) }, 4,
            |h: &blake_hash::Blake256| be32(h.verif_chain()), |_h: &blake_hash::Blake256| false, "512MiB"),
        "blake224" => stream_one!(out, blake_hash::Blake224, "Blake224", (1u64 << 29) + 64, 333, |h: &blake_hash::Blake224| { let t = h.verif_counter(); (t.0 as u128) | ((t.1 as u128) << 32) }, 4,
            |h: &blake_hash::Blake224| be32(h.verif_chain()), |_h: &blake_hash::Blake224| false, "512MiB"),
        "jh256" => stream_one!(out, jh_x86_64::Jh256, "Jh256", (1u64 << 29) + 130, 400, |h: &jh_x86_64::Jh256| h.verif_counter() as u128, 8,
            |h: &jh_x86_64::Jh256| h.verif_chain().to_vec(), |_h: &jh_x86_64::Jh256| false, "512MiB"),
        "skein512" => stream_one!(out, skein_hash::Skein512<U64>, "Skein512", (1u64 << 32) + 100, 300, |h: &skein_hash::Skein512<U64>| h.verif_counter() as u128, 4,
            |h: &skein_hash::Skein512<U64>| h.verif_chain().to_vec(), |h: &skein_hash::Skein512<U64>| h.verif_first(), "4GiB"),
        "skein256" => stream_one!(out, skein_hash::Skein256<U32>, "Skein256", (1u64 << 32) + 33, 200, |h: &skein_hash::Skein256<U32>| h.verif_counter() as u128, 4,
            |h: &skein_hash::Skein256<U32>| h.verif_chain().to_vec(), |h: &skein_hash::Skein256<U32>| h.verif_first(), "4GiB"),
        _ => panic!("harness: stream target"),
    }
}
